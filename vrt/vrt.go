// Package vrt holds the verification intrinsics used by the harnesses in
// /verif/harness. It is never part of /repo: it is injected as an overlay at
// github.com/biogo/hts/internal/vrt. Under the symbolic executor (gosym) every
// function here is intercepted; compiled natively it reads the inputs of one
// concrete counterexample from the JSON file named by $VRT_REPLAY, so the same
// harness replays a solver model against the real build.
package vrt

import (
	"encoding/json"
	"fmt"
	"math/rand"
	"os"
	"runtime"
	"strings"
	"time"
)

type inputVal struct {
	Name  string  `json:"name"`
	Kind  string  `json:"kind"`
	Val   int64   `json:"val"`
	Bytes []int64 `json:"bytes"`
}

type replayCase struct {
	Harness string         `json:"harness"`
	Inputs  []inputVal     `json:"inputs"`
	Params  map[string]int `json:"params"`
	Expect  string         `json:"expect"`
}

type replayFile struct {
	Cases []replayCase `json:"cases"`
}

// Failure is the panic value of a failed Assert during native replay.
type Failure struct{ Label string }

// AssumeFailed is the panic value when a replayed input violates an assumption.
type AssumeFailed struct{}

var baseGoroutines int

var (
	file   replayFile
	rf     replayCase
	pos    int
	loaded bool
)

func load() {
	if loaded {
		return
	}
	loaded = true
	p := os.Getenv("VRT_REPLAY")
	if p == "" {
		panic("vrt: VRT_REPLAY not set")
	}
	b, err := os.ReadFile(p)
	if err != nil {
		panic(err)
	}
	if err := json.Unmarshal(b, &file); err != nil {
		panic(err)
	}
}

// NumCases returns the number of cases in the replay file.
func NumCases() int { load(); return len(file.Cases) }

// Begin selects case i and returns its harness name and expectation.
func Begin(i int) (harness, expect string) {
	load()
	rf = file.Cases[i]
	pos = 0
	baseGoroutines = runtime.NumGoroutine()
	return rf.Harness, rf.Expect
}

func next(name string) inputVal {
	load()
	if pos >= len(rf.Inputs) {
		// inputs created after the violating point: zero
		return inputVal{Name: name}
	}
	v := rf.Inputs[pos]
	pos++
	base := v.Name
	if i := strings.IndexByte(base, '#'); i >= 0 {
		base = base[:i]
	}
	if base != name {
		panic(fmt.Sprintf("vrt: replay input %d is %q, harness asked for %q", pos-1, v.Name, name))
	}
	return v
}

func Int8(name string) int8     { return int8(next(name).Val) }
func Int16(name string) int16   { return int16(next(name).Val) }
func Int32(name string) int32   { return int32(next(name).Val) }
func Int64(name string) int64   { return next(name).Val }
func Int(name string) int       { return int(next(name).Val) }
func Uint8(name string) uint8   { return uint8(next(name).Val) }
func Uint16(name string) uint16 { return uint16(next(name).Val) }
func Uint32(name string) uint32 { return uint32(next(name).Val) }
func Uint64(name string) uint64 { return uint64(next(name).Val) }
func Uint(name string) uint     { return uint(next(name).Val) }
func Byte(name string) byte     { return byte(next(name).Val) }
func Bool(name string) bool     { return next(name).Val != 0 }

// Bytes returns n arbitrary bytes.
func Bytes(name string, n int) []byte {
	v := next(name)
	b := make([]byte, n)
	for i := range b {
		if i < len(v.Bytes) {
			b[i] = byte(v.Bytes[i])
		}
	}
	return b
}

// Choice returns an arbitrary value in [0,k): the executor explores each.
func Choice(name string, k int) int { return int(next(name).Val) }

// Assume restricts the inputs considered.
func Assume(c bool) {
	if !c {
		panic(AssumeFailed{})
	}
}

// Assert states the property.
func Assert(c bool, label string) {
	if !c {
		panic(Failure{label})
	}
}

// Reach marks a point that must be reachable (vacuity guard).
func Reach(label string) {}

// Param returns a bound chosen by the driver (tier dependent).
func Param(name string, def int) int {
	load()
	if v, ok := rf.Params[name]; ok {
		return v
	}
	return def
}

// Concrete forks the executor over the feasible values of x.
func Concrete(x int) int { return x }

// MapOrderNondet makes the executor explore every map iteration order.
func MapOrderNondet(on bool) {}

// LiveTasks reports the number of library goroutines still alive. Under the
// executor these are the interpreter tasks other than the harness; natively the
// goroutine count is compared with the count at the start of the case (the
// goroutine running the harness itself excluded), allowing exiting goroutines
// a moment to finish.
func LiveTasks() int {
	n := 0
	for i := 0; i < 100; i++ {
		n = runtime.NumGoroutine() - baseGoroutines - 1
		if n <= 0 {
			return 0
		}
		time.Sleep(5 * time.Millisecond)
	}
	return n
}

// Symbolic reports whether the harness runs under the symbolic executor.
func Symbolic() bool { return false }

// Or and And are non-short-circuit boolean connectives: the executor builds a
// single term instead of forking.
func Or(a, b bool) bool  { return a || b }
func And(a, b bool) bool { return a && b }

// Implies is material implication without a fork.
func Implies(a, b bool) bool { return !a || b }

// Ite selects without a fork.
func Ite(c bool, a, b int) int {
	if c {
		return a
	}
	return b
}

// LenientFmt tells the executor that the text produced by fmt is irrelevant in
// this harness (totality checks): operands it cannot format symbolically give
// a placeholder instead of an inconclusive path.
func LenientFmt(on bool) {}

var jitterLevel int

// SetJitter(n) makes Jitter sleep a random duration of up to n milliseconds (native
// replays only; n = 0 switches it off). Used by the replay test on its retries so that
// schedule-dependent counterexamples get a chance to show natively.
func SetJitter(n int) { jitterLevel = n }

// Jitter is called by harness stubs of the environment (sink Write, source Read); it does
// nothing under the symbolic executor, where the scheduler explores the orders.
func Jitter() {
	if jitterLevel > 0 {
		time.Sleep(time.Duration(rand.Intn(jitterLevel*1000+1)) * time.Microsecond)
		runtime.Gosched()
	}
}
