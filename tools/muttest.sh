#!/bin/bash
# usage: tools/muttest.sh <worktree> <property> <diff> [extra check args]
# Applies a seeded change in a scratch worktree of /repo, runs the property's check against
# that worktree (VERIF_REPO), prints the verdict and restores the worktree.
wt=$1; prop=$2; diff=$3; shift 3
out=$(mktemp -d /tmp/mut_out_XXXX)
cd "$wt" && git checkout -q -- . && git apply "$diff" || { echo "MUT $prop $(basename $diff): APPLY-FAILED"; exit 0; }
VERIF_REPO="$wt" VERIF_OUT_DIR="$out" /verif/check "$prop" "$@" > "$out/log" 2>&1
rc=$?
nv=$(grep -c '^VIOLATION' "$out/log")
echo "MUT $prop $(basename $diff): exit=$rc violations=$nv $(grep -m2 -A1 '^VIOLATION' "$out/log" | grep -v '^VIOLATION' | cut -c1-220 | tr '\n' ' ')"
grep '^INCONCLUSIVE' "$out/log" | head -3 | cut -c1-250
cd "$wt" && git checkout -q -- .
rm -rf "$out"
