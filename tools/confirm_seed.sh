#!/bin/bash
# usage: confirm_seed.sh <worktree> <mutation-name>   (expects mutations/<name>.diff and <name>_demo_test.go.txt)
# Confirms: applies cleanly, builds, affected packages' existing tests pass (known baseline failures ignored),
# demo fails with the change and passes without it.
export GOFLAGS=-mod=mod GOPROXY=off GOSUMDB=off GOTOOLCHAIN=local
wt=$1; m=$2
cd "$wt" || exit 1
git checkout -q -- . ; git clean -fdq -e mutations
demo="mutations/${m}_demo_test.go.txt"
dir=$(head -1 "$demo" | sed -n 's|^// dir: *||p' | tr -d ' \r')
[ -z "$dir" ] && { echo "SEED $wt $m: NO-DIR"; exit 0; }
pkgs=$(git apply --numstat "mutations/$m.diff" | awk '{print $3}' | xargs -n1 dirname | sort -u | sed 's|^|./|' | tr '\n' ' ')
git apply "mutations/$m.diff" || { echo "SEED $wt $m: APPLY-FAILED"; exit 0; }
go build ./... > /tmp/seed_build.log 2>&1 || { echo "SEED $wt $m: BUILD-FAILED"; git checkout -q -- .; exit 0; }
# existing tests of the touched packages and their main dependants
tests=$(go test -count=1 $pkgs ./bam ./sam ./csi ./tabix ./fai ./bgzf/... 2>&1 | grep -E "^(--- FAIL|FAIL|ok)" | grep -v "TestEOF\|TestHasEOF\|TestRead\b")
existing_fail=$(echo "$tests" | grep -c "^--- FAIL")
cp "$demo" "$dir/zz_seed_demo_test.go"
go test -count=1 -timeout 120s -run 'Test' "./$dir" > /tmp/seed_demo_mut.log 2>&1; rc_mut=$?
git checkout -q -- . ; 
go test -count=1 -timeout 120s -run 'Test' "./$dir" > /tmp/seed_demo_clean.log 2>&1; rc_clean=$?
rm -f "$dir/zz_seed_demo_test.go"
# rc_clean may be non-zero because of baseline failures (TestEOF); look at the demo tests only
demo_tests=$(grep -o '^func Test[A-Za-z0-9_]*' "$demo" | sed 's/func //' | tr '\n' '|' | sed 's/|$//')
cp "$demo" "$dir/zz_seed_demo_test.go"
go test -count=1 -timeout 120s -run "^($demo_tests)\$" "./$dir" > /tmp/seed_demo_clean.log 2>&1; rc_clean=$?
git apply "mutations/$m.diff"
go test -count=1 -timeout 120s -run "^($demo_tests)\$" "./$dir" > /tmp/seed_demo_mut.log 2>&1; rc_mut=$?
rm -f "$dir/zz_seed_demo_test.go"; git checkout -q -- .
echo "SEED $wt $m: build=ok existing_test_failures=$existing_fail demo_with_change_rc=$rc_mut demo_clean_rc=$rc_clean dir=$dir"
