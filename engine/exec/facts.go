package exec

import "gosym/sym"

// Path facts: every conjunct of the path condition is recorded as "term is
// true/false" and, for equalities with a constant, "term equals constant".
// Conditions are rewritten under these facts before any solver call, which
// decides most re-tests of already decided conditions without a query.

func (m *Machine) addFact(t *sym.Term) {
	c := m.ctx
	if m.facts == nil {
		m.facts = map[*sym.Term]*sym.Term{}
	}
	switch t.Op {
	case sym.OpNot:
		a := t.Args[0]
		m.facts[a] = c.False
		if a.Op == sym.OpOr {
			m.addFact(c.Not(a.Args[0]))
			m.addFact(c.Not(a.Args[1]))
		}
		return
	case sym.OpAnd:
		m.addFact(t.Args[0])
		m.addFact(t.Args[1])
	case sym.OpEq:
		a, b := t.Args[0], t.Args[1]
		if b.IsConst() && !a.IsConst() {
			m.facts[a] = b
		} else if a.IsConst() && !b.IsConst() {
			m.facts[b] = a
		}
	}
	m.facts[t] = c.True
}

// simplify rewrites t under the current path facts.
func (m *Machine) simplify(t *sym.Term) *sym.Term {
	if len(m.facts) == 0 || t.IsConst() {
		return t
	}
	memo := map[*sym.Term]*sym.Term{}
	return m.simp(t, memo, 0)
}

func (m *Machine) simp(t *sym.Term, memo map[*sym.Term]*sym.Term, depth int) *sym.Term {
	if t.IsConst() || t.Op == sym.OpVar && m.facts[t] == nil {
		return t
	}
	if r, ok := memo[t]; ok {
		return r
	}
	if f, ok := m.facts[t]; ok {
		memo[t] = f
		return f
	}
	if len(t.Args) == 0 || depth > 200 {
		return t
	}
	changed := false
	args := make([]*sym.Term, len(t.Args))
	for i, a := range t.Args {
		args[i] = m.simp(a, memo, depth+1)
		if args[i] != a {
			changed = true
		}
	}
	r := t
	if changed {
		r = m.ctx.Rebuild(t, args)
		if f, ok := m.facts[r]; ok {
			r = f
		}
	}
	memo[t] = r
	return r
}
