// Package exec: a path-based symbolic interpreter for go/ssa.
package exec

import (
	"fmt"
	"go/types"
	"strings"

	"gosym/sym"

	"golang.org/x/tools/go/ssa"
)

type Value interface{}

// Float is an opaque IEEE bit pattern (no symbolic float arithmetic).
type Float struct {
	W    int
	Bits *sym.Term
}

// Loc is an addressable memory location (tree shaped for aggregates).
type Loc struct {
	Typ   types.Type
	V     Value   // scalar-ish contents
	Kids  []*Loc  // struct fields, or elements of arrays of aggregates
	Elems []Value // compact array of non-aggregate elements
	ID    int
	Name  string
	// functional byte-array mode (large arrays with symbolic contents)
	FA *FArr
}

// Ptr addresses a Loc, or element I of a compact array Loc, or (I==-2) a
// symbolically indexed element.
type Ptr struct {
	L   *Loc
	I   int
	Idx *sym.Term
}

type Slice struct {
	Arr           *Loc
	Off, Len, Cap *sym.Term
}

type Str struct {
	S string
	B []*sym.Term // non-nil when any byte is symbolic; len(B) is the length
}

type Struct []Value
type Array []Value
type Tuple []Value

type Iface struct {
	T types.Type // nil for nil interface
	V Value
}

type Closure struct {
	Fn       *ssa.Function
	Bindings []Value
	// bound method / builtin wrappers
	Native string
	Recv   Value
}

type MapEntry struct {
	K, V Value
}
type MapObj struct {
	KT, VT  types.Type
	Entries []MapEntry
	ID      int
}

// RangeIter is the state of a range-over-map or range-over-string.
type RangeIter struct {
	M    *MapObj
	Keys []MapEntry
	S    Str
	Pos  int
	IsStr bool
}

func isAggregate(t types.Type) bool {
	switch t.Underlying().(type) {
	case *types.Struct, *types.Array:
		return true
	}
	return false
}

func intWidth(b *types.Basic) (w int, signed bool, ok bool) {
	switch b.Kind() {
	case types.Int8:
		return 8, true, true
	case types.Int16:
		return 16, true, true
	case types.Int32:
		return 32, true, true
	case types.Int64, types.Int, types.UntypedInt, types.UntypedRune:
		return 64, true, true
	case types.Uint8:
		return 8, false, true
	case types.Uint16:
		return 16, false, true
	case types.Uint32:
		return 32, false, true
	case types.Uint64, types.Uint, types.Uintptr:
		return 64, false, true
	}
	return 0, false, false
}

func typeIntInfo(t types.Type) (w int, signed bool, ok bool) {
	b, isb := t.Underlying().(*types.Basic)
	if !isb {
		return 0, false, false
	}
	if b.Kind() == types.UntypedRune {
		return 32, true, true
	}
	return intWidth(b)
}

func isFloat(t types.Type) (int, bool) {
	b, ok := t.Underlying().(*types.Basic)
	if !ok {
		return 0, false
	}
	switch b.Kind() {
	case types.Float32:
		return 32, true
	case types.Float64, types.UntypedFloat:
		return 64, true
	}
	return 0, false
}

func (m *Machine) zero(t types.Type) Value {
	switch u := t.Underlying().(type) {
	case *types.Basic:
		if w, _, ok := intWidth(u); ok {
			return m.ctx.BV(w, 0)
		}
		switch u.Kind() {
		case types.Bool, types.UntypedBool:
			return m.ctx.False
		case types.String, types.UntypedString:
			return Str{}
		case types.Float32:
			return Float{32, m.ctx.BV(32, 0)}
		case types.Float64, types.UntypedFloat:
			return Float{64, m.ctx.BV(64, 0)}
		case types.UnsafePointer:
			return Ptr{}
		case types.UntypedNil:
			return nil
		}
		m.unsupported("zero value of basic type %s", t)
	case *types.Pointer:
		return Ptr{}
	case *types.Slice:
		return Slice{Off: m.i64(0), Len: m.i64(0), Cap: m.i64(0)}
	case *types.Map:
		return (*MapObj)(nil)
	case *types.Chan:
		return (*ChanObj)(nil)
	case *types.Signature:
		return (*Closure)(nil)
	case *types.Interface:
		return Iface{}
	case *types.Struct:
		s := make(Struct, u.NumFields())
		for i := range s {
			s[i] = m.zero(u.Field(i).Type())
		}
		return s
	case *types.Array:
		n := int(u.Len())
		a := make(Array, n)
		if n > 0 {
			z := m.zero(u.Elem())
			for i := range a {
				a[i] = z
			}
			if isAggregate(u.Elem()) {
				for i := 1; i < n; i++ {
					a[i] = m.zero(u.Elem())
				}
			}
		}
		return a
	case *types.Tuple:
		tp := make(Tuple, u.Len())
		for i := range tp {
			tp[i] = m.zero(u.At(i).Type())
		}
		return tp
	}
	m.unsupported("zero value of type %s", t)
	return nil
}

func (m *Machine) newLoc(t types.Type) *Loc {
	m.nextID++
	l := &Loc{Typ: t, ID: m.nextID}
	switch u := t.Underlying().(type) {
	case *types.Struct:
		l.Kids = make([]*Loc, u.NumFields())
		for i := range l.Kids {
			l.Kids[i] = m.newLoc(u.Field(i).Type())
		}
	case *types.Array:
		n := int(u.Len())
		if isAggregate(u.Elem()) {
			l.Kids = make([]*Loc, n)
			for i := range l.Kids {
				l.Kids[i] = m.newLoc(u.Elem())
			}
		} else {
			l.Elems = make([]Value, n)
			if n > 0 {
				z := m.zero(u.Elem())
				for i := range l.Elems {
					l.Elems[i] = z
				}
			}
		}
	default:
		l.V = m.zero(t)
	}
	return l
}

// newArrayLoc allocates an array Loc of n elements of type elem.
func (m *Machine) newArrayLoc(elem types.Type, n int) *Loc {
	return m.newLoc(types.NewArray(elem, int64(n)))
}

func (l *Loc) arrayLen() int {
	if l.Elems != nil {
		return len(l.Elems)
	}
	if l.FA != nil {
		return l.FA.N
	}
	return len(l.Kids)
}

func (m *Machine) loadLoc(l *Loc) Value {
	switch u := l.Typ.Underlying().(type) {
	case *types.Struct:
		s := make(Struct, len(l.Kids))
		for i, k := range l.Kids {
			s[i] = m.loadLoc(k)
		}
		return s
	case *types.Array:
		_ = u
		if l.FA != nil {
			m.unsupported("load of whole functional array")
		}
		if l.Kids != nil || l.Elems == nil {
			a := make(Array, len(l.Kids))
			for i, k := range l.Kids {
				a[i] = m.loadLoc(k)
			}
			return a
		}
		a := make(Array, len(l.Elems))
		copy(a, l.Elems)
		return a
	}
	return l.V
}

func (m *Machine) storeLoc(l *Loc, v Value) {
	switch l.Typ.Underlying().(type) {
	case *types.Struct:
		s, ok := v.(Struct)
		if !ok {
			m.unsupported("store of %T into struct loc %s", v, l.Typ)
		}
		for i, k := range l.Kids {
			m.storeLoc(k, s[i])
		}
		return
	case *types.Array:
		a, ok := v.(Array)
		if !ok {
			m.unsupported("store of %T into array loc %s", v, l.Typ)
		}
		if l.FA != nil {
			m.unsupported("store of whole array into functional array")
		}
		if l.Elems != nil {
			copy(l.Elems, a)
			return
		}
		for i, k := range l.Kids {
			m.storeLoc(k, a[i])
		}
		return
	}
	l.V = v
}

func (m *Machine) load(p Ptr) Value {
	if p.L == nil {
		m.goPanic("runtime error: invalid memory address or nil pointer dereference")
	}
	switch {
	case p.I == -1:
		return m.loadLoc(p.L)
	case p.I >= 0:
		if p.L.FA != nil {
			return p.L.FA.Read(m, m.i64(int64(p.I)))
		}
		return p.L.Elems[p.I]
	default:
		return m.loadSymIdx(p.L, p.Idx)
	}
}

func (m *Machine) store(p Ptr, v Value) {
	if p.L == nil {
		m.goPanic("runtime error: invalid memory address or nil pointer dereference")
	}
	switch {
	case p.I == -1:
		m.storeLoc(p.L, v)
	case p.I >= 0:
		if p.L.FA != nil {
			p.L.FA.Write(m, m.i64(int64(p.I)), v.(*sym.Term))
			return
		}
		p.L.Elems[p.I] = v
	default:
		m.storeSymIdx(p.L, p.Idx, v)
	}
}

// loadSymIdx reads element idx (already bounds-checked, 64-bit term) of a compact array.
func (m *Machine) loadSymIdx(l *Loc, idx *sym.Term) Value {
	if l.FA != nil {
		return l.FA.Read(m, idx)
	}
	n := l.arrayLen()
	if n == 0 {
		m.unsupported("symbolic index into empty array")
	}
	// index is an ite tree over constants (itself a table lookup): map the leaves
	if l.Elems != nil && sym.ConstLeaves(idx, 64) {
		allTerms := true
		for _, e := range l.Elems {
			if _, ok := e.(*sym.Term); !ok {
				allTerms = false
				break
			}
		}
		if allTerms {
			return m.ctx.MapLeaves(idx, func(k *sym.Term) *sym.Term {
				i := k.Int()
				if i < 0 || i >= int64(len(l.Elems)) {
					i = 0 // leaf excluded by the preceding bounds check
				}
				return l.Elems[i].(*sym.Term)
			})
		}
	}
	// restrict to feasible window when large
	lo, hi := 0, n-1
	if n > 1024 {
		lo, hi = m.idxRange(idx, n)
	}
	get := func(i int) Value {
		if l.Kids != nil {
			return m.loadLoc(l.Kids[i])
		}
		return l.Elems[i]
	}
	var acc Value = get(hi)
	for i := hi - 1; i >= lo; i-- {
		acc = m.iteValue(m.ctx.Eq(idx, m.i64(int64(i))), get(i), acc)
	}
	return acc
}

func (m *Machine) storeSymIdx(l *Loc, idx *sym.Term, v Value) {
	if l.FA != nil {
		l.FA.Write(m, idx, v.(*sym.Term))
		return
	}
	n := l.arrayLen()
	lo, hi := 0, n-1
	if n > 1024 {
		lo, hi = m.idxRange(idx, n)
	}
	for i := lo; i <= hi; i++ {
		if l.Kids != nil {
			m.storeLoc(l.Kids[i], m.iteValue(m.ctx.Eq(idx, m.i64(int64(i))), v, m.loadLoc(l.Kids[i])))
			continue
		}
		l.Elems[i] = m.iteValue(m.ctx.Eq(idx, m.i64(int64(i))), v, l.Elems[i])
	}
}

// idxRange finds (by solver queries) a window containing every feasible value of idx.
func (m *Machine) idxRange(idx *sym.Term, n int) (int, int) {
	lo, hi := 0, n-1
	// binary search for smallest feasible and largest feasible values
	l, h := 0, n-1
	for l < h {
		mid := (l + h) / 2
		if m.feasible(m.ctx.SLE(idx, m.i64(int64(mid)))) {
			h = mid
		} else {
			l = mid + 1
		}
	}
	lo = l
	l, h = lo, n-1
	for l < h {
		mid := (l + h + 1) / 2
		if m.feasible(m.ctx.SLE(m.i64(int64(mid)), idx)) {
			l = mid
		} else {
			h = mid - 1
		}
	}
	hi = l
	if hi-lo > 4096 {
		m.unsupported("symbolic index window too large (%d)", hi-lo+1)
	}
	return lo, hi
}

// iteValue builds ite(c, a, b) over values of identical shape.
func (m *Machine) iteValue(c *sym.Term, a, b Value) Value {
	if c.IsTrue() {
		return a
	}
	if c.IsFalse() {
		return b
	}
	switch av := a.(type) {
	case *sym.Term:
		return m.ctx.Ite(c, av, b.(*sym.Term))
	case Float:
		return Float{av.W, m.ctx.Ite(c, av.Bits, b.(Float).Bits)}
	case Struct:
		bv := b.(Struct)
		r := make(Struct, len(av))
		for i := range av {
			r[i] = m.iteValue(c, av[i], bv[i])
		}
		return r
	case Array:
		bv := b.(Array)
		r := make(Array, len(av))
		for i := range av {
			r[i] = m.iteValue(c, av[i], bv[i])
		}
		return r
	case Str:
		bv := b.(Str)
		if av.Len() == bv.Len() {
			ab, bb := m.strBytes(av), m.strBytes(bv)
			r := make([]*sym.Term, len(ab))
			for i := range ab {
				r[i] = m.ctx.Ite(c, ab[i], bb[i])
			}
			return m.mkStr(r)
		}
	case Ptr:
		if bv, ok := b.(Ptr); ok && av == bv {
			return a
		}
	}
	if m.sameConcrete(a, b) {
		return a
	}
	// fall back to forking on the condition
	if m.branch(c) {
		return a
	}
	return b
}

func (m *Machine) sameConcrete(a, b Value) bool {
	switch av := a.(type) {
	case Ptr:
		bv, ok := b.(Ptr)
		return ok && av == bv
	case *MapObj:
		bv, ok := b.(*MapObj)
		return ok && av == bv
	case *Closure:
		bv, ok := b.(*Closure)
		return ok && av == bv
	case Iface:
		bv, ok := b.(Iface)
		if !ok {
			return false
		}
		if av.T == nil && bv.T == nil {
			return true
		}
		if av.T == nil || bv.T == nil || !types.Identical(av.T, bv.T) {
			return false
		}
		return m.sameConcrete(av.V, bv.V)
	case *sym.Term:
		bv, ok := b.(*sym.Term)
		return ok && av == bv
	case Slice:
		bv, ok := b.(Slice)
		return ok && av == bv
	}
	return false
}

func (s Str) Len() int {
	if s.B != nil {
		return len(s.B)
	}
	return len(s.S)
}

func (m *Machine) strBytes(s Str) []*sym.Term {
	if s.B != nil {
		return s.B
	}
	b := make([]*sym.Term, len(s.S))
	for i := 0; i < len(s.S); i++ {
		b[i] = m.ctx.BV(8, uint64(s.S[i]))
	}
	return b
}

// mkStr normalises: all-constant bytes become a concrete string.
func (m *Machine) mkStr(b []*sym.Term) Str {
	allc := true
	for _, t := range b {
		if !t.IsConst() {
			allc = false
			break
		}
	}
	if allc {
		bs := make([]byte, len(b))
		for i, t := range b {
			bs[i] = byte(t.Val)
		}
		return Str{S: string(bs)}
	}
	if b == nil {
		b = []*sym.Term{}
	}
	return Str{B: b}
}

func (m *Machine) i64(v int64) *sym.Term { return m.ctx.BV(64, uint64(v)) }

func (m *Machine) constInt(t *sym.Term) (int64, bool) {
	if t.IsConst() {
		return t.Int(), true
	}
	return 0, false
}

func describe(v Value) string {
	switch x := v.(type) {
	case *sym.Term:
		return x.String()
	case Str:
		if x.B == nil {
			return fmt.Sprintf("%q", x.S)
		}
		var sb strings.Builder
		sb.WriteString("str[")
		for i, b := range x.B {
			if i > 0 {
				sb.WriteString(" ")
			}
			sb.WriteString(b.String())
		}
		sb.WriteString("]")
		return sb.String()
	case nil:
		return "nil"
	}
	return fmt.Sprintf("%T", v)
}
