package exec

import (
	"go/types"

	"gosym/sym"

	"golang.org/x/tools/go/ssa"
)

// lookupMethod finds an exported method by name on the dynamic type t (nil if absent).
func (m *Machine) lookupMethod(t types.Type, name string) *ssa.Function {
	sel := m.prog.MethodSets.MethodSet(t).Lookup(nil, name)
	if sel == nil {
		return nil
	}
	return m.prog.MethodValue(sel)
}

// unsafeBuiltin models unsafe.String / StringData / Slice / SliceData.
func (m *Machine) unsafeBuiltin(name string, args []Value) (Value, bool) {
	switch name {
	case "String":
		p := args[0].(Ptr)
		n := int(m.concretize(args[1].(*sym.Term), 1<<16))
		if n == 0 {
			return Str{}, true
		}
		if p.L == nil || p.L.Elems == nil {
			m.unsupported("unsafe.String of %v", p)
		}
		i := p.I
		if i < 0 {
			i = 0
		}
		bs := make([]*sym.Term, n)
		for k := 0; k < n; k++ {
			bs[k] = p.L.Elems[i+k].(*sym.Term)
		}
		return m.mkStr(bs), true
	case "StringData":
		s := args[0].(Str)
		bs := m.strBytes(s)
		arr := m.newArrayLoc(types.Typ[types.Uint8], len(bs))
		for i, b := range bs {
			arr.Elems[i] = b
		}
		if len(bs) == 0 {
			return Ptr{}, true
		}
		return Ptr{L: arr, I: 0}, true
	case "SliceData":
		s := args[0].(Slice)
		if s.Arr == nil {
			return Ptr{}, true
		}
		off := int(m.concretize(s.Off, 1<<16))
		if s.Arr.Kids != nil {
			if off < len(s.Arr.Kids) {
				return Ptr{L: s.Arr.Kids[off], I: -1}, true
			}
			return Ptr{}, true
		}
		return Ptr{L: s.Arr, I: off}, true
	case "Slice":
		p := args[0].(Ptr)
		n := args[1].(*sym.Term)
		if n.W < 64 {
			n = m.ctx.SExt(n, 64)
		}
		if p.L == nil {
			return Slice{Off: m.i64(0), Len: m.i64(0), Cap: m.i64(0)}, true
		}
		i := p.I
		if i < 0 {
			i = 0
		}
		return Slice{Arr: p.L, Off: m.i64(int64(i)), Len: n, Cap: n}, true
	}
	return nil, false
}
