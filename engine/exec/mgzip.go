package exec

import (
	"go/types"

	"gosym/sym"
)

// mgzip: codec model standing in for compress/gzip (and with it compress/flate
// and hash/crc32), which no SMT back end can take symbolically.
//
// Member format produced by the model writer and accepted by the model reader:
//
//	RFC 1952 header exactly as compress/gzip writes it: 1f 8b 08 FLG MTIME(4) XFL OS,
//	  [XLEN(2) Extra] [Name 00] [Comment 00]        (FEXTRA, FNAME, FCOMMENT; FHCRC verified if set)
//	body: a 16-bit little-endian tag 1+8*n followed by the n payload bytes; the reader also
//	  accepts tag 3+8*n, so that the literal BGZF EOF marker (body "03 00") is a valid empty
//	  member while an empty member produced by the writer ("01 00") is distinguishable from it,
//	  as it is with the real DEFLATE encoder
//	trailer: CHECK(4) = 32-bit sum of the payload bytes, ISIZE(4) = n
//
// The reader consumes bytes only through the io.Reader/io.ByteReader it was
// given, so the repository's byte counting, buffering and BSIZE framing run
// for real. Compression ratio, levels and the strength of CRC-32 are outside
// the model; any single-byte change of a payload is detected by CHECK.

type gzWriterState struct {
	payload []*sym.Term
	closed  bool
	wroteHeader bool
}

type gzReaderState struct {
	data   []*sym.Term
	pos    int
	err    Value // sticky error (Iface) once hit
	primed bool
	src    Iface
}

func init() { extraNatives = append(extraNatives, registerGzip) }

func (m *Machine) fieldLoc(l *Loc, name string) *Loc {
	st, ok := l.Typ.Underlying().(*types.Struct)
	if !ok {
		m.unsupported("fieldLoc on %s", l.Typ)
	}
	for i := 0; i < st.NumFields(); i++ {
		if st.Field(i).Name() == name {
			return l.Kids[i]
		}
	}
	m.unsupported("no field %s in %s", name, l.Typ)
	return nil
}

func (m *Machine) gzipErr(name string) Iface {
	p := m.prog.ImportedPackage("compress/gzip")
	if p == nil {
		m.unsupported("compress/gzip not loaded")
	}
	g := p.Var(name)
	return m.loadLoc(m.global(g)).(Iface)
}

func (m *Machine) ioErr(name string) Iface {
	p := m.prog.ImportedPackage("io")
	g := p.Var(name)
	return m.loadLoc(m.global(g)).(Iface)
}

func (m *Machine) errNew(msg string) Iface {
	return m.callFn(m.stdFunc("errors", "New"), []Value{Str{S: msg}}, nil).(Iface)
}

// timeUnixSeconds extracts the Unix seconds of a time.Time struct value by
// interpreting (time.Time).Unix.
func (m *Machine) timeUnix(t Value, tt types.Type) *sym.Term {
	fn := m.lookupMethod(tt, "Unix")
	if fn == nil {
		m.unsupported("time.Time.Unix not found")
	}
	return m.callFn(fn, []Value{t}, nil).(*sym.Term)
}

func registerGzip(m *Machine) {
	m.natives["compress/gzip.NewWriterLevel"] = func(m *Machine, a []Value) Value {
		level := a[1].(*sym.Term)
		c := m.ctx
		ok := c.And(c.SLE(m.i64(-2), level), c.SLE(level, m.i64(9)))
		if !m.branch(ok) {
			return Tuple{Ptr{}, m.errNew("gzip: invalid compression level")}
		}
		p := m.prog.ImportedPackage("compress/gzip")
		tn := p.Type("Writer")
		l := m.newLoc(tn.Type())
		m.fieldLoc(l, "w").V = a[0]
		m.fieldLoc(l, "level").V = level
		m.fieldLoc(m.fieldLoc(l, "Header"), "OS").V = m.ctx.BV(8, 255) // gzip.Writer.init: Header{OS: 255}
		m.ghost[l] = &gzWriterState{}
		return Tuple{Ptr{L: l, I: -1}, Iface{}}
	}
	m.natives["(*compress/gzip.Writer).Reset"] = func(m *Machine, a []Value) Value {
		l := a[0].(Ptr).L
		m.fieldLoc(l, "w").V = a[1]
		// Reset clears the header as the real one does
		hl := m.fieldLoc(l, "Header")
		m.storeLoc(hl, m.zero(hl.Typ))
		m.fieldLoc(hl, "OS").V = m.ctx.BV(8, 255) // gzip.Writer.init: Header{OS: 255}
		m.ghost[l] = &gzWriterState{}
		return nil
	}
	m.natives["(*compress/gzip.Writer).Write"] = func(m *Machine, a []Value) Value {
		l := a[0].(Ptr).L
		st, _ := m.ghost[l].(*gzWriterState)
		if st == nil {
			st = &gzWriterState{}
			m.ghost[l] = st
		}
		if st.closed {
			return Tuple{m.i64(0), m.errNew("gzip: write to closed writer")}
		}
		bs := m.sliceTerms(a[1].(Slice))
		st.payload = append(st.payload, bs...)
		return Tuple{m.i64(int64(len(bs))), Iface{}}
	}
	m.natives["(*compress/gzip.Writer).Flush"] = func(m *Machine, a []Value) Value { return Iface{} }
	m.natives["(*compress/gzip.Writer).Close"] = func(m *Machine, a []Value) Value {
		l := a[0].(Ptr).L
		st, _ := m.ghost[l].(*gzWriterState)
		if st == nil {
			st = &gzWriterState{}
			m.ghost[l] = st
		}
		if st.closed {
			return Iface{}
		}
		st.closed = true
		c := m.ctx
		hl := m.fieldLoc(l, "Header")
		comment := m.fieldLoc(hl, "Comment").V.(Str)
		extra := m.fieldLoc(hl, "Extra").V.(Slice)
		name := m.fieldLoc(hl, "Name").V.(Str)
		osb := m.fieldLoc(hl, "OS").V.(*sym.Term)
		mt := m.fieldLoc(hl, "ModTime")
		var out []*sym.Term
		b8 := func(v uint64) *sym.Term { return c.BV(8, v) }
		ex := m.sliceTerms(extra)
		if len(ex) > 0xffff {
			return m.errNew("gzip.Write: Extra data is too large")
		}
		flg := uint64(0)
		if len(ex) > 0 {
			flg |= 4
		}
		if name.Len() > 0 {
			flg |= 8
		}
		if comment.Len() > 0 {
			flg |= 16
		}
		out = append(out, b8(0x1f), b8(0x8b), b8(8), b8(flg))
		// MTIME: seconds since the epoch when ModTime is after it, else 0
		secs := m.timeUnix(m.loadLoc(mt), mt.Typ)
		after := c.SLT(m.i64(0), secs)
		mtime := c.Ite(after, c.Extract(secs, 31, 0), c.BV(32, 0))
		for i := 0; i < 4; i++ {
			out = append(out, c.Extract(mtime, i*8+7, i*8))
		}
		level := m.fieldLoc(l, "level").V.(*sym.Term)
		xfl := c.Ite(c.Eq(level, m.i64(9)), b8(2), c.Ite(c.Eq(level, m.i64(1)), b8(4), b8(0)))
		out = append(out, xfl, osb)
		if len(ex) > 0 {
			out = append(out, b8(uint64(len(ex)&0xff)), b8(uint64(len(ex)>>8)))
			out = append(out, ex...)
		}
		for _, s := range []Str{name, comment} {
			if s.Len() == 0 {
				continue
			}
			for _, ch := range m.strBytes(s) {
				// gzip stores Latin-1 strings and rejects NUL
				m.check(c.And(c.Not(c.Eq(ch, b8(0))), c.ULT(ch, b8(0x80))), "unsupported", "gzip header string with NUL or non-ASCII byte (the real writer converts to Latin-1 or returns an error)")
				out = append(out, ch)
			}
			out = append(out, b8(0))
		}
		n := len(st.payload)
		tag := uint64(1 + 8*n) // the writer's members carry tag 1+8n; the literal EOF marker carries 3 (n=0)
		if tag > 0xffff {
			m.unsupported("mgzip: payload of %d bytes exceeds the model's body tag", n)
		}
		out = append(out, b8(tag&0xff), b8(tag>>8))
		out = append(out, st.payload...)
		sum := c.BV(32, 0)
		for _, p := range st.payload {
			sum = c.Add(sum, c.ZExt(p, 32))
		}
		for i := 0; i < 4; i++ {
			out = append(out, c.Extract(sum, i*8+7, i*8))
		}
		for i := 0; i < 4; i++ {
			out = append(out, b8(uint64(n>>(8*i))&0xff))
		}
		w := m.fieldLoc(l, "w").V.(Iface)
		r := m.invokeMethod(w, "Write", m.byteSliceFromTerms(out)).(Tuple)
		return r[1]
	}

	// ---- reader ----
	readByte := func(m *Machine, src Iface) (*sym.Term, Iface) {
		r := m.invokeMethod(src, "ReadByte").(Tuple)
		return r[0].(*sym.Term), r[1].(Iface)
	}
	noEOF := func(m *Machine, err Iface) Iface {
		if err.T != nil && m.valueEq(err, m.ioErr("EOF")).IsTrue() {
			return m.ioErr("ErrUnexpectedEOF")
		}
		return err
	}
	// readHeader parses one member header into the Header field of the Reader loc.
	readHeader := func(m *Machine, l *Loc, src Iface) Iface {
		c := m.ctx
		var hdr [10]*sym.Term
		for i := 0; i < 10; i++ {
			b, err := readByte(m, src)
			if err.T != nil {
				if i == 0 {
					return err
				}
				return noEOF(m, err)
			}
			hdr[i] = b
		}
		okMagic := c.And(c.And(c.Eq(hdr[0], c.BV(8, 0x1f)), c.Eq(hdr[1], c.BV(8, 0x8b))), c.Eq(hdr[2], c.BV(8, 8)))
		if !m.branch(okMagic) {
			return m.gzipErr("ErrHeader")
		}
		flg := hdr[3]
		hl := m.fieldLoc(l, "Header")
		m.storeLoc(hl, m.zero(hl.Typ))
		// ModTime: time.Unix(mtime, 0) when mtime > 0
		mtime := c.Concat(c.Concat(hdr[7], hdr[6]), c.Concat(hdr[5], hdr[4]))
		if m.branch(c.Not(c.Eq(mtime, c.BV(32, 0)))) {
			tv := m.callFn(m.stdFunc("time", "Unix"), []Value{c.ZExt(mtime, 64), m.i64(0)}, nil)
			m.storeLoc(m.fieldLoc(hl, "ModTime"), tv)
		}
		m.fieldLoc(hl, "OS").V = hdr[9]
		bit := func(k uint) bool {
			return m.branch(c.Eq(c.Extract(flg, int(k), int(k)), c.BV(1, 1)))
		}
		if bit(2) { // FEXTRA
			lo, err := readByte(m, src)
			if err.T != nil {
				return noEOF(m, err)
			}
			hi, err := readByte(m, src)
			if err.T != nil {
				return noEOF(m, err)
			}
			// the length is decided byte by byte, so that an altered length field costs
			// one path per available byte rather than one per value
			xlen := c.Concat(hi, lo)
			var ex []*sym.Term
			for i := 0; m.branch(c.ULT(c.BV(16, uint64(i)), xlen)); i++ {
				b, err := readByte(m, src)
				if err.T != nil {
					return noEOF(m, err)
				}
				ex = append(ex, b)
			}
			m.fieldLoc(hl, "Extra").V = m.byteSliceFromTerms(ex)
		}
		readString := func() (Str, Iface) {
			var bs []*sym.Term
			for i := 0; i < 512; i++ {
				b, err := readByte(m, src)
				if err.T != nil {
					return Str{}, noEOF(m, err)
				}
				if m.branch(c.Eq(b, c.BV(8, 0))) {
					return m.mkStr(bs), Iface{}
				}
				bs = append(bs, b)
			}
			return Str{}, m.gzipErr("ErrHeader")
		}
		if bit(3) { // FNAME
			s, err := readString()
			if err.T != nil {
				return err
			}
			m.fieldLoc(hl, "Name").V = s
		}
		if bit(4) { // FCOMMENT
			s, err := readString()
			if err.T != nil {
				return err
			}
			m.fieldLoc(hl, "Comment").V = s
		}
		if bit(1) { // FHCRC: the model cannot compute CRC-32; a header CRC is treated as mismatching
			for i := 0; i < 2; i++ {
				if _, err := readByte(m, src); err.T != nil {
					return noEOF(m, err)
				}
			}
			return m.gzipErr("ErrHeader")
		}
		return Iface{}
	}
	m.natives["(*compress/gzip.Reader).Reset"] = func(m *Machine, a []Value) Value {
		l := a[0].(Ptr).L
		src := a[1].(Iface)
		st := &gzReaderState{src: src}
		m.ghost[l] = st
		if err := readHeader(m, l, src); err.T != nil {
			st.err = err
			return err
		}
		return Iface{}
	}
	m.natives["(*compress/gzip.Reader).Multistream"] = func(m *Machine, a []Value) Value { return nil }
	m.natives["(*compress/gzip.Reader).Close"] = func(m *Machine, a []Value) Value { return Iface{} }
	m.natives["(*compress/gzip.Reader).Read"] = func(m *Machine, a []Value) Value {
		l := a[0].(Ptr).L
		c := m.ctx
		st, _ := m.ghost[l].(*gzReaderState)
		if st == nil {
			return Tuple{m.i64(0), m.errNew("gzip: Read on uninitialised Reader")}
		}
		if e, ok := st.err.(Iface); ok && e.T != nil && !st.primed {
			return Tuple{m.i64(0), e}
		}
		p := a[1].(Slice)
		if !st.primed {
			st.primed = true
			fail := func(err Iface) Value {
				st.err = err
				return Tuple{m.i64(0), err}
			}
			lo, err := readByte(m, st.src)
			if err.T != nil {
				return fail(noEOF(m, err))
			}
			hi, err := readByte(m, st.src)
			if err.T != nil {
				return fail(noEOF(m, err))
			}
			tag := c.Concat(hi, lo)
			if !m.branch(c.Or(c.Eq(c.Extract(tag, 2, 0), c.BV(3, 3)), c.Eq(c.Extract(tag, 2, 0), c.BV(3, 1)))) {
				return fail(m.errNew("flate: corrupt input (model body tag)"))
			}
			nterm := c.Extract(tag, 15, 3)
			var data []*sym.Term
			for i := 0; m.branch(c.ULT(c.BV(13, uint64(i)), nterm)); i++ {
				b, err := readByte(m, st.src)
				if err.T != nil {
					return fail(noEOF(m, err))
				}
				data = append(data, b)
			}
			n := len(data)
			var tr [8]*sym.Term
			for i := range tr {
				b, err := readByte(m, st.src)
				if err.T != nil {
					return fail(noEOF(m, err))
				}
				tr[i] = b
			}
			sum := c.BV(32, 0)
			for _, b := range data {
				sum = c.Add(sum, c.ZExt(b, 32))
			}
			gotSum := c.Concat(c.Concat(tr[3], tr[2]), c.Concat(tr[1], tr[0]))
			gotN := c.Concat(c.Concat(tr[7], tr[6]), c.Concat(tr[5], tr[4]))
			ok := c.And(c.Eq(gotSum, sum), c.Eq(gotN, c.BV(32, uint64(n))))
			if !m.branch(ok) {
				return fail(m.gzipErr("ErrChecksum"))
			}
			st.data = data
		}
		if e, ok := st.err.(Iface); ok && e.T != nil {
			return Tuple{m.i64(0), e}
		}
		plen := int(m.concretize(p.Len, 1<<16))
		if plen == 0 {
			return Tuple{m.i64(0), Iface{}}
		}
		if st.pos >= len(st.data) {
			// multistream (the default, which the repository leaves on): the real reader
			// tries to parse another member header from whatever follows the trailer
			if e, ok := st.err.(Iface); ok && e.T != nil {
				return Tuple{m.i64(0), e}
			}
			b, err := readByte(m, st.src)
			if err.T != nil {
				st.err = m.ioErr("EOF")
				if !m.valueEq(err, m.ioErr("EOF")).IsTrue() {
					st.err = err
				}
				return Tuple{m.i64(0), st.err}
			}
			// bytes after the member that are not a complete further member
			if m.branch(c.Eq(b, c.BV(8, 0x1f))) {
				st.err = m.ioErr("ErrUnexpectedEOF")
			} else {
				st.err = m.gzipErr("ErrHeader")
			}
			return Tuple{m.i64(0), st.err}
		}
		k := len(st.data) - st.pos
		if k > plen {
			k = plen
		}
		poff := int(m.concretize(p.Off, 1<<16))
		for i := 0; i < k; i++ {
			m.writeElem(p.Arr, poff+i, st.data[st.pos+i])
		}
		st.pos += k
		return Tuple{m.i64(int64(k)), Iface{}}
	}
}
