package exec

import (
	"fmt"
	"go/token"
	"os"
	"go/types"
	"runtime/debug"
	"sort"
	"strings"
	"time"

	"gosym/sym"

	"golang.org/x/tools/go/ssa"
)

type Config struct {
	MaxSteps    int   // per path
	MaxVisits   int   // per (frame, block) loop-header visits
	MaxPaths    int   // per harness
	MaxDepth    int   // call depth
	AllocLimit  int   // cells for symbolic-size allocations
	Params      map[string]int
	Deadline    time.Time
	Preempt     int // pre-emption bound for the scheduler
	Verbose     bool
	PanicsAreViolations bool
	Fallback    []string
	MaxViolations int
	PerSite       int
	EagerChecks bool
	Profile     bool
	ConcIndex   bool
	UnwindIsHang bool
	Stubs       map[string]string
	FallbackTimeoutMs int
	// DetForced: when the running task blocks or exits, the lowest-numbered enabled task
	// continues instead of every enabled task being explored (one schedule per input)
	DetForced bool
	Progress    int
}

type Input struct {
	Name  string
	Kind  string // int8.. bool choice bytes
	Term  *sym.Term
	Terms []*sym.Term
	Val   int64 // for choices
}

type Violation struct {
	Kind   string // assert | panic | deadlock | leak | ...
	Label  string
	Pos    string
	Fn     string
	Inputs []InputVal
	Stack  []string
	Detail string
}

type InputVal struct {
	Name  string  `json:"name"`
	Kind  string  `json:"kind"`
	Val   int64   `json:"val"`
	Bytes []int64 `json:"bytes,omitempty"`
}

// PathSample is the concrete input assignment of one completed path.
type PathSample struct {
	Inputs  []InputVal `json:"inputs"`
	Reached []string   `json:"reached"`
	Path    int        `json:"path"`
}

type alt struct {
	id    int
	model *sym.Model
}
type node struct {
	alts []alt
	next int
	kind string
}

type Stats struct {
	Paths        int
	Steps        int64
	Decisions    int
	Checks       int
	Unsupported  map[string]int
	UnwindHits   int
	OverLimit    int
	AssumeKilled int
	Completed    int
	EngineErrors []string
	Unknowns     int
}

type pathEnd struct{ reason string }
type unsupportedErr struct{ msg string }
type goPanicErr struct {
	val Value
	msg string
}

type Machine struct {
	prog   *ssa.Program
	ctx    *sym.Ctx
	solver *sym.Solver
	Cfg    Config

	stack      []*node
	Stats      Stats
	Violations []*Violation
	seenViol   map[string]bool
	siteCount  map[string]int
	Reached    map[string]int
	FuncsRun   map[*ssa.Function]int64
	SamplePCs  []string
	Samples    []PathSample
	fnInfos    map[*ssa.Function]*fnInfo
	natives    map[string]nativeFn

	// per path
	pos      int
	pc       []*sym.Term
	model    *sym.Model
	ev       *sym.Evaluator
	globals  map[*ssa.Global]*Loc
	pkgInit  map[*ssa.Package]int
	inputs   []Input
	inputN   map[string]int
	steps    int
	nextID   int
	depth    int
	task     *Task
	mapOrderNondet bool
	initMode int
	sched    *Sched
	harness  string
	ghost    map[interface{}]interface{}
	pathReached []string
	facts    map[*sym.Term]*sym.Term
	lastProgress time.Time
	fallback map[string]*sym.Solver
	obligations []obligation
	pcAll    *sym.Term
	FallbackQueries int
	QuerySites map[string]int
	lenientFmt bool
	deadlineHit bool
}

func NewMachine(prog *ssa.Program, ctx *sym.Ctx, solver *sym.Solver, cfg Config) *Machine {
	m := &Machine{prog: prog, ctx: ctx, solver: solver, Cfg: cfg}
	m.seenViol = map[string]bool{}
	m.siteCount = map[string]int{}
	m.Reached = map[string]int{}
	m.FuncsRun = map[*ssa.Function]int64{}
	m.fnInfos = map[*ssa.Function]*fnInfo{}
	m.Stats.Unsupported = map[string]int{}
	m.natives = map[string]nativeFn{}
	registerNatives(m)
	return m
}

func (m *Machine) unsupported(format string, args ...interface{}) {
	panic(&unsupportedErr{fmt.Sprintf(format, args...)})
}

func (m *Machine) endPath(reason string) { panic(&pathEnd{reason}) }

// goPanic models a Go run-time panic on a feasible path.
func (m *Machine) goPanic(msg string) {
	m.violation("panic", msg, nil, "")
	m.endPath("panic")
}

func (m *Machine) inReplay() bool { return m.pos < len(m.stack) }

func (m *Machine) addPC(t *sym.Term) {
	if t.IsTrue() {
		return
	}
	m.pc = append(m.pc, t)
	if m.pcAll == nil {
		m.pcAll = t
	} else {
		m.pcAll = m.ctx.And(m.pcAll, t)
	}
	m.addFact(t)
}

func (m *Machine) setModel(md *sym.Model) {
	m.model = md
	m.ev = sym.NewEvaluator(md)
}

func (m *Machine) evalBool(t *sym.Term) bool { return m.ev.Bool(t) }

// query asks the solver whether pc ∧ extra is satisfiable.
func (m *Machine) query(extra *sym.Term) (sym.Result, *sym.Model) {
	if extra.IsFalse() {
		return sym.Unsat, nil
	}
	asserts := make([]*sym.Term, 0, len(m.pc)+1)
	asserts = append(asserts, m.pc...)
	asserts = append(asserts, extra)
	if m.Cfg.Profile {
		pos, _, _ := m.curPos()
		if m.QuerySites == nil {
			m.QuerySites = map[string]int{}
		}
		m.QuerySites[pos]++
	}
	qstart := time.Now()
	res, md := m.solver.Check(m.pc, extra, true)
	if d := time.Since(qstart); d > 5*time.Second {
		pos, fn, st := m.curPos()
		if len(st) > 8 {
			st = st[:8]
		}
		fmt.Fprintf(os.Stderr, "    slow query (%.1fs, %v) in %s at %s (harness %s) %v\n", d.Seconds(), res, fn, pos, m.harness, st)
	}
	if res == sym.Unknown && len(m.solver.Errors) == 0 {
		// portfolio: retry the query on the other back ends before giving up
		for _, name := range m.Cfg.Fallback {
			fs := m.fallback[name]
			if fs == nil {
				var err error
				fs, err = sym.NewSolver(m.ctx, name, m.Cfg.FallbackTimeoutMs)
				if err != nil {
					continue
				}
				if m.fallback == nil {
					m.fallback = map[string]*sym.Solver{}
				}
				m.fallback[name] = fs
			}
			res, md = fs.Check(m.pc, extra, true)
			m.FallbackQueries++
			if res != sym.Unknown {
				break
			}
		}
	}
	if res == sym.Sat {
		if md == nil {
			res = sym.Unknown
		} else {
			// validate the model with our own evaluator
			ev := sym.NewEvaluator(md)
			for _, a := range asserts {
				if !ev.Bool(a) {
					m.Stats.EngineErrors = append(m.Stats.EngineErrors, "model validation failed for "+a.String())
					res = sym.Unknown
					md = nil
					break
				}
			}
		}
	}
	if res == sym.Unknown {
		m.Stats.Unknowns++
	}
	return res, md
}

// feasible: is pc ∧ c satisfiable (unknown counts as feasible, marked inconclusive).
// It must not be used for decisions that need replay consistency unless wrapped in a node.
func (m *Machine) feasible(c *sym.Term) bool {
	if c.IsTrue() {
		return true
	}
	if c.IsFalse() {
		return false
	}
	if m.evalBool(c) {
		return true
	}
	r, _ := m.query(c)
	return r != sym.Unsat
}

// decide is the general n-way decision point. conds[i] is the condition under
// which alternative i is taken (they should be mutually exclusive and exhaustive).
func (m *Machine) decide(kind string, conds []*sym.Term) int {
	if m.inReplay() {
		n := m.stack[m.pos]
		m.pos++
		a := n.alts[n.next]
		if a.model != nil {
			m.setModel(a.model)
		}
		m.addPC(conds[a.id])
		return a.id
	}
	m.Stats.Decisions++
	n := &node{kind: kind}
	// the alternative consistent with the current model goes first
	first := -1
	for i, c := range conds {
		if c.IsFalse() {
			continue
		}
		if first < 0 && m.evalBool(c) {
			first = i
			n.alts = append(n.alts, alt{i, m.model})
		}
	}
	for i, c := range conds {
		if i == first || c.IsFalse() {
			continue
		}
		r, md := m.query(c)
		switch r {
		case sym.Sat:
			n.alts = append(n.alts, alt{i, md})
		case sym.Unknown:
			// cannot decide: the run is inconclusive; do not explore
		}
	}
	if len(n.alts) == 0 {
		m.endPath("no feasible alternative")
	}
	m.stack = append(m.stack, n)
	m.pos++
	a := n.alts[0]
	if a.model != m.model && a.model != nil {
		m.setModel(a.model)
	}
	m.addPC(conds[a.id])
	return a.id
}

// branch forks on a boolean condition.
func (m *Machine) branch(c *sym.Term) bool {
	c = m.simplify(c)
	if c.IsConst() {
		return c.Val != 0
	}
	return m.decide("br", []*sym.Term{c, m.ctx.Not(c)}) == 0
}

// choice: unconstrained k-way fork.
func (m *Machine) choice(k int) int {
	if k <= 0 {
		m.endPath("empty choice")
	}
	conds := make([]*sym.Term, k)
	for i := range conds {
		conds[i] = m.ctx.True
	}
	if m.inReplay() {
		return m.decide("ch", conds)
	}
	n := &node{kind: "ch"}
	for i := 0; i < k; i++ {
		n.alts = append(n.alts, alt{i, nil})
	}
	m.Stats.Decisions++
	m.stack = append(m.stack, n)
	m.pos++
	return 0
}

// concretize forks over the feasible values of t (at most limit).
func (m *Machine) concretize(t *sym.Term, limit int) int64 {
	if t.IsConst() {
		return t.Int()
	}
	t = m.simplify(t)
	if t.IsConst() {
		return t.Int()
	}
	if m.inReplay() {
		n := m.stack[m.pos]
		m.pos++
		a := n.alts[n.next]
		if a.model != nil {
			m.setModel(a.model)
		}
		v := m.ctx.BV(t.W, uint64(a.id))
		m.addPC(m.ctx.Eq(t, v))
		return v.Int()
	}
	m.Stats.Decisions++
	n := &node{kind: "conc"}
	v0 := m.ev.Eval(t)
	n.alts = append(n.alts, alt{int(v0), m.model})
	excl := m.ctx.Not(m.ctx.Eq(t, m.ctx.BV(t.W, v0)))
	for {
		r, md := m.query(excl)
		if r != sym.Sat {
			break
		}
		v := sym.NewEvaluator(md).Eval(t)
		n.alts = append(n.alts, alt{int(v), md})
		excl = m.ctx.And(excl, m.ctx.Not(m.ctx.Eq(t, m.ctx.BV(t.W, v))))
		if len(n.alts) > limit {
			m.unsupported("concretize: more than %d feasible values for %s", limit, t)
		}
	}
	// deterministic order
	sort.SliceStable(n.alts[1:], func(i, j int) bool { return n.alts[1+i].id < n.alts[1+j].id })
	m.stack = append(m.stack, n)
	m.pos++
	v := m.ctx.BV(t.W, uint64(n.alts[0].id))
	m.addPC(m.ctx.Eq(t, v))
	return v.Int()
}

// check: cond must hold, otherwise a violation of the given kind is recorded.
// Execution continues on the side where cond holds.
func (m *Machine) check(cond *sym.Term, kind, label string) {
	cond = m.simplify(cond)
	if cond.IsTrue() {
		return
	}
	if m.inReplay() {
		n := m.stack[m.pos]
		m.pos++
		a := n.alts[n.next]
		if a.model != nil {
			m.setModel(a.model)
		}
		m.addPC(cond)
		return
	}
	m.Stats.Checks++
	if cond.IsFalse() {
		m.violation(kind, label, m.model, "")
		m.endPath(kind)
	}
	n := &node{kind: "chk"}
	if !m.evalBool(cond) {
		m.violation(kind, label, m.model, "")
		r, md := m.query(cond)
		if r != sym.Sat {
			m.endPath(kind)
		}
		m.setModel(md)
	} else if m.Cfg.EagerChecks {
		r, md := m.query(m.ctx.Not(cond))
		if r == sym.Sat {
			m.violation(kind, label, md, "")
		}
	} else {
		// the current model witnesses the passing side; the failing side is
		// decided in one batched query at the end of the path
		m.obligations = append(m.obligations, obligation{pre: m.pcAll, cond: cond, kind: kind, label: label, frames: m.captureFrames()})
	}
	n.alts = []alt{{0, m.model}}
	m.stack = append(m.stack, n)
	m.pos++
	m.addPC(cond)
}

// assume restricts the path; ends it when infeasible.
func (m *Machine) assume(cond *sym.Term) {
	cond = m.simplify(cond)
	if cond.IsTrue() {
		return
	}
	if m.inReplay() {
		n := m.stack[m.pos]
		m.pos++
		a := n.alts[n.next]
		if a.model != nil {
			m.setModel(a.model)
		}
		m.addPC(cond)
		return
	}
	if cond.IsFalse() {
		m.Stats.AssumeKilled++
		m.endPath("assume")
	}
	if !m.evalBool(cond) {
		r, md := m.query(cond)
		if r != sym.Sat {
			m.Stats.AssumeKilled++
			m.endPath("assume")
		}
		m.setModel(md)
	}
	m.stack = append(m.stack, &node{kind: "asm", alts: []alt{{0, m.model}}})
	m.pos++
	m.addPC(cond)
}

type frameRef struct {
	fn  *ssa.Function
	cur ssa.Instruction
}

type obligation struct {
	pre, cond   *sym.Term
	kind, label string
	frames      []frameRef
}

// captureFrames snapshots the call stack (innermost first) cheaply.
func (m *Machine) captureFrames() []frameRef {
	var cs []*Frame
	if m.task != nil {
		cs = m.task.stack
	}
	out := make([]frameRef, 0, len(cs))
	for i := len(cs) - 1; i >= 0; i-- {
		out = append(out, frameRef{cs[i].fn, cs[i].cur})
	}
	return out
}

func (m *Machine) curPos() (string, string, []string) {
	return m.describeFrames(m.captureFrames())
}

func (m *Machine) describeFrames(frs []frameRef) (string, string, []string) {
	var stackS []string
	pos, fn := "", ""
	for _, fr := range frs {
		p := ""
		if fr.cur != nil {
			p = m.prog.Fset.Position(instrPos(fr)).String()
		}
		stackS = append(stackS, fr.fn.String()+" "+p)
		if pos == "" && fr.cur != nil && instrPos(fr) != token.NoPos {
			pos = p
			fn = fr.fn.String()
		}
	}
	if fn == "" && len(frs) > 0 {
		fn = frs[0].fn.String()
	}
	return pos, fn, stackS
}

func instrPos(fr frameRef) token.Pos {
	if fr.cur == nil {
		return token.NoPos
	}
	if p := fr.cur.Pos(); p != token.NoPos {
		return p
	}
	// fall back to any operand position in the block
	for _, in := range fr.cur.Block().Instrs {
		if p := in.Pos(); p != token.NoPos {
			return p
		}
	}
	return fr.fn.Pos()
}

// flushObligations decides all deferred VCs of the current path in one query:
// is some (path prefix ∧ ¬condition) satisfiable?
func (m *Machine) flushObligations() {
	obl := m.obligations
	m.obligations = nil
	m.lenientFmt = false
	savePC, saveFacts := m.pc, m.facts
	m.pc, m.facts = nil, nil
	defer func() { m.pc, m.facts = savePC, saveFacts }()
	c := m.ctx
	for len(obl) > 0 {
		disj := c.False
		for _, o := range obl {
			disj = c.Or(disj, c.And(o.pre, c.Not(o.cond)))
		}
		r, md := m.query(disj)
		if r != sym.Sat {
			return // unsat: all hold; unknown: counted by query()
		}
		ev := sym.NewEvaluator(md)
		var rest []obligation
		for _, o := range obl {
			if ev.Bool(o.pre) && !ev.Bool(o.cond) {
				m.violationAt(o.kind, o.label, md, "", o.frames)
			} else {
				rest = append(rest, o)
			}
		}
		if len(rest) == len(obl) {
			return
		}
		obl = rest
	}
}

func (m *Machine) violation(kind, label string, md *sym.Model, detail string) {
	m.violationAt(kind, label, md, detail, m.captureFrames())
}

func (m *Machine) violationAt(kind, label string, md *sym.Model, detail string, frs []frameRef) {
	pos, fn, st := m.describeFrames(frs)
	key := kind + "|" + label + "|" + pos
	if kind == "assert" {
		key = kind + "|" + label
	}
	if md == nil {
		md = m.model
	}
	v := &Violation{Kind: kind, Label: label, Pos: pos, Fn: fn, Stack: st, Detail: detail}
	v.Inputs = m.inputVals(md)
	// one violation per site, or (PerSite > 1) up to PerSite with pairwise different
	// explored choices, so that the driver has alternatives when one does not replay
	per := m.Cfg.PerSite
	if per < 1 {
		per = 1
	}
	ck := key + "|"
	for _, in := range v.Inputs {
		if in.Kind == "choice" {
			ck += fmt.Sprintf("%s=%d,", in.Name, in.Val)
		}
	}
	if m.seenViol[ck] || m.siteCount[key] >= per {
		return
	}
	m.seenViol[ck] = true
	m.siteCount[key]++
	m.Violations = append(m.Violations, v)
}

func (m *Machine) inputVals(md *sym.Model) []InputVal {
	var out []InputVal
	ev := sym.NewEvaluator(md)
	for _, in := range m.inputs {
		iv := InputVal{Name: in.Name, Kind: in.Kind}
		switch {
		case in.Kind == "choice":
			iv.Val = in.Val
		case in.Terms != nil:
			for _, t := range in.Terms {
				iv.Bytes = append(iv.Bytes, int64(ev.Eval(t)))
			}
			if iv.Bytes == nil {
				iv.Bytes = []int64{}
			}
		default:
			iv.Val = signedVal(ev.Eval(in.Term), in.Term.W, in.Kind)
		}
		out = append(out, iv)
	}
	if out == nil {
		out = []InputVal{}
	}
	return out
}

func signedVal(v uint64, w int, kind string) int64 {
	if strings.HasPrefix(kind, "int") && w < 64 && w > 0 {
		sh := uint(64 - w)
		return int64(v<<sh) >> sh
	}
	return int64(v)
}

func (m *Machine) newInput(name, kind string, w int) *sym.Term {
	if m.inputN == nil {
		m.inputN = map[string]int{}
	}
	n := m.inputN[name]
	m.inputN[name] = n + 1
	vn := name
	if n > 0 {
		vn = fmt.Sprintf("%s#%d", name, n)
	}
	t := m.ctx.Var(vn, w)
	m.inputs = append(m.inputs, Input{Name: vn, Kind: kind, Term: t})
	return t
}

func (m *Machine) resetPath() {
	m.pos = 0
	m.pc = m.pc[:0]
	m.setModel(sym.NewModel())
	m.globals = map[*ssa.Global]*Loc{}
	m.pkgInit = map[*ssa.Package]int{}
	m.inputs = nil
	m.inputN = nil
	m.steps = 0
	m.nextID = 0
	m.depth = 0
	m.task = nil
	m.mapOrderNondet = false
	m.initMode = 0
	m.sched = nil
	m.ghost = map[interface{}]interface{}{}
	m.facts = nil
	m.obligations = nil
	m.pcAll = m.ctx.True
	m.pathReached = nil
}

// Close releases the fallback solvers.
func (m *Machine) Close() {
	for _, s := range m.fallback {
		s.Close()
	}
}

// backtrack advances the decision stack to the next unexplored alternative.
func (m *Machine) backtrack() bool {
	for len(m.stack) > 0 {
		top := m.stack[len(m.stack)-1]
		if top.next+1 < len(top.alts) {
			top.next++
			return true
		}
		m.stack = m.stack[:len(m.stack)-1]
	}
	return false
}

type Outcome struct {
	Complete bool
	Reason   string
}

// Explore runs all paths of the harness function.
func (m *Machine) Explore(fn *ssa.Function) Outcome {
	m.harness = fn.Name()
	m.stack = nil
	for {
		m.resetPath()
		m.runPath(fn)
		m.Stats.Paths++
		m.Stats.Steps += int64(m.steps)
		if !m.backtrack() {
			break
		}
		if m.Cfg.Progress > 0 && time.Since(m.lastProgress) > time.Duration(m.Cfg.Progress)*time.Second {
			m.lastProgress = time.Now()
			fmt.Fprintf(os.Stderr, "    … %s: %d paths, %d queries (%.1fs solver), depth %d, %d violations\n", m.harness, m.Stats.Paths, m.solver.Queries, m.solver.Time.Seconds(), len(m.stack), len(m.Violations))
		}
		if m.Cfg.MaxPaths > 0 && m.Stats.Paths >= m.Cfg.MaxPaths {
			return Outcome{false, fmt.Sprintf("path limit %d reached", m.Cfg.MaxPaths)}
		}
		if m.deadlineHit || !m.Cfg.Deadline.IsZero() && time.Now().After(m.Cfg.Deadline) {
			return Outcome{false, "deadline reached"}
		}
		if len(m.Stats.EngineErrors) > 20 {
			return Outcome{false, "too many engine errors"}
		}
		if m.Cfg.MaxViolations > 0 && len(m.Violations) >= m.Cfg.MaxViolations {
			return Outcome{false, fmt.Sprintf("stopped after %d violations", len(m.Violations))}
		}
		tot := 0
		for _, n := range m.Stats.Unsupported {
			tot += n
		}
		if tot > 50 {
			return Outcome{false, "too many unsupported paths"}
		}
	}
	return Outcome{true, ""}
}

func (m *Machine) runPath(fn *ssa.Function) {
	defer m.flushObligations()
	defer func() {
		if r := recover(); r != nil {
			switch e := r.(type) {
			case *pathEnd:
				if m.Cfg.Verbose {
					fmt.Printf("  path %d ended: %s\n", m.Stats.Paths, e.reason)
				}
			case *unsupportedErr:
				pos, _, _ := m.curPos()
				m.Stats.Unsupported[e.msg+" @ "+pos]++
			default:
				pos, _, st := m.curPos()
				m.Stats.EngineErrors = append(m.Stats.EngineErrors,
					fmt.Sprintf("engine panic: %v @ %s\n%s\n%s", r, pos, strings.Join(st, "\n"), trimStack(string(debug.Stack()))))
			}
		}
	}()
	m.runMain(fn)
	m.Stats.Completed++
	if n := m.Stats.Completed; n <= 3 || (n&(n-1)) == 0 && len(m.Samples) < 12 {
		m.Samples = append(m.Samples, PathSample{Inputs: m.inputVals(m.model), Reached: append([]string{}, m.pathReached...), Path: m.Stats.Paths})
	}
	if len(m.SamplePCs) < 3 {
		var sb strings.Builder
		for i, c := range m.pc {
			if i > 0 {
				sb.WriteString(" ∧ ")
			}
			if sb.Len() > 600 {
				sb.WriteString("…")
				break
			}
			sb.WriteString(c.String())
		}
		m.SamplePCs = append(m.SamplePCs, sb.String())
	}
}

func trimStack(s string) string {
	lines := strings.Split(s, "\n")
	if len(lines) > 40 {
		lines = lines[:40]
	}
	return strings.Join(lines, "\n")
}

var _ = types.Identical
