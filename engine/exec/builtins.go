package exec

import (
	"go/types"

	"gosym/sym"

	"golang.org/x/tools/go/ssa"
)

type nativeFn func(m *Machine, args []Value) Value

// concSlice concretizes offset and length of a slice.
func (m *Machine) concSlice(s Slice) (off, ln int) {
	if s.Arr == nil {
		return 0, 0
	}
	ln = int(m.concretize(s.Len, 1<<16))
	off = int(m.concretize(s.Off, 1<<16))
	return
}

func (m *Machine) readElem(arr *Loc, i int) Value {
	if arr.Kids != nil {
		return m.loadLoc(arr.Kids[i])
	}
	if arr.FA != nil {
		return arr.FA.Read(m, m.i64(int64(i)))
	}
	return arr.Elems[i]
}

func (m *Machine) writeElem(arr *Loc, i int, v Value) {
	if arr.Kids != nil {
		m.storeLoc(arr.Kids[i], v)
		return
	}
	if arr.FA != nil {
		arr.FA.Write(m, m.i64(int64(i)), v.(*sym.Term))
		return
	}
	arr.Elems[i] = v
}

func elemTypeOfArrayLoc(l *Loc) types.Type {
	return l.Typ.Underlying().(*types.Array).Elem()
}

// doAppend implements append(s, t...) where t is a slice or string value.
func (m *Machine) doAppend(st types.Type, sv, tv Value) Value {
	s := sv.(Slice)
	elemT := st.Underlying().(*types.Slice).Elem()
	var add []Value
	switch t := tv.(type) {
	case Slice:
		if t.Arr != nil && t.Arr.FA != nil || s.Arr != nil && s.Arr.FA != nil {
			return m.faAppend(elemT, s, t)
		}
		toff, tlen := m.concSlice(t)
		for i := 0; i < tlen; i++ {
			add = append(add, m.readElem(t.Arr, toff+i))
		}
	case Str:
		for _, b := range m.strBytes(t) {
			add = append(add, b)
		}
	case nil:
	default:
		m.unsupported("append of %T", tv)
	}
	if len(add) == 0 {
		return s
	}
	off, ln := m.concSlice(s)
	cp := int(m.concretize(s.Cap, 1<<16))
	need := ln + len(add)
	if need <= cp {
		for i, v := range add {
			m.writeElem(s.Arr, off+ln+i, v)
		}
		return Slice{Arr: s.Arr, Off: s.Off, Len: m.i64(int64(need)), Cap: s.Cap}
	}
	ncap := need
	if cp > 0 && 2*cp > need {
		ncap = 2 * cp
	}
	arr := m.newArrayLoc(elemT, ncap)
	for i := 0; i < ln; i++ {
		m.writeElem(arr, i, m.readElem(s.Arr, off+i))
	}
	for i, v := range add {
		m.writeElem(arr, ln+i, v)
	}
	return Slice{Arr: arr, Off: m.i64(0), Len: m.i64(int64(need)), Cap: m.i64(int64(ncap))}
}

func (m *Machine) doCopy(dv, sv Value) Value {
	d := dv.(Slice)
	var src []Value
	switch s := sv.(type) {
	case Slice:
		if d.Arr != nil && d.Arr.FA != nil || s.Arr != nil && s.Arr.FA != nil {
			return m.faCopy(d, s)
		}
		// n = min(len d, len s)
		n := m.minTerm(d.Len, s.Len)
		nn := int(m.concretize(n, 1<<16))
		if nn == 0 {
			return m.i64(0)
		}
		soff := int(m.concretize(s.Off, 1<<16))
		for i := 0; i < nn; i++ {
			src = append(src, m.readElem(s.Arr, soff+i))
		}
	case Str:
		n := m.minTerm(d.Len, m.i64(int64(s.Len())))
		nn := int(m.concretize(n, 1<<16))
		for _, b := range m.strBytes(s)[:nn] {
			src = append(src, b)
		}
	default:
		m.unsupported("copy from %T", sv)
	}
	if len(src) == 0 {
		return m.i64(0)
	}
	doff := int(m.concretize(d.Off, 1<<16))
	for i, v := range src {
		m.writeElem(d.Arr, doff+i, v)
	}
	return m.i64(int64(len(src)))
}

func (m *Machine) minTerm(a, b *sym.Term) *sym.Term {
	return m.ctx.Ite(m.ctx.SLT(a, b), a, b)
}

func (m *Machine) builtin(fr *Frame, b *ssa.Builtin, c *ssa.CallCommon, args []Value) Value {
	switch b.Name() {
	case "len":
		switch x := args[0].(type) {
		case Slice:
			return x.Len
		case Str:
			return m.i64(int64(x.Len()))
		case Array:
			return m.i64(int64(len(x)))
		case *MapObj:
			if x == nil {
				return m.i64(0)
			}
			return m.i64(int64(len(x.Entries)))
		case *ChanObj:
			if x == nil {
				return m.i64(0)
			}
			return m.i64(int64(len(x.buf)))
		case Ptr:
			if x.L == nil {
				// len of nil *array is the static length
				at := c.Args[0].Type().Underlying().(*types.Pointer).Elem().Underlying().(*types.Array)
				return m.i64(at.Len())
			}
			return m.i64(int64(x.L.arrayLen()))
		}
	case "cap":
		switch x := args[0].(type) {
		case Slice:
			return x.Cap
		case Array:
			return m.i64(int64(len(x)))
		case *ChanObj:
			if x == nil {
				return m.i64(0)
			}
			return m.i64(int64(x.cap))
		case Ptr:
			at := c.Args[0].Type().Underlying().(*types.Pointer).Elem().Underlying().(*types.Array)
			return m.i64(at.Len())
		}
	case "append":
		return m.doAppend(c.Args[0].Type(), args[0], args[1])
	case "copy":
		return m.doCopy(args[0], args[1])
	case "delete":
		mo := args[0].(*MapObj)
		if mo != nil {
			m.mapDelete(mo, args[1])
		}
		return nil
	case "panic":
		m.violation("panic", "explicit panic: "+m.panicText(args[0]), nil, "")
		m.endPath("panic")
	case "recover":
		return Iface{}
	case "print", "println":
		return nil
	case "close":
		m.chanClose(args[0].(*ChanObj))
		return nil
	case "ssa:wrapnilchk":
		if p, ok := args[0].(Ptr); ok && p.L == nil {
			m.goPanic("value method called using nil pointer")
		}
		return args[0]
	case "min", "max":
		acc := args[0].(*sym.Term)
		_, signed, _ := typeIntInfo(c.Args[0].Type())
		for _, a := range args[1:] {
			t := a.(*sym.Term)
			var lt *sym.Term
			if signed {
				lt = m.ctx.SLT(t, acc)
			} else {
				lt = m.ctx.ULT(t, acc)
			}
			if b.Name() == "min" {
				acc = m.ctx.Ite(lt, t, acc)
			} else {
				acc = m.ctx.Ite(lt, acc, t)
			}
		}
		return acc
	case "clear":
		switch x := args[0].(type) {
		case *MapObj:
			if x != nil {
				x.Entries = nil
			}
			return nil
		case Slice:
			off, ln := m.concSlice(x)
			if ln > 0 {
				z := m.zero(elemTypeOfArrayLoc(x.Arr))
				for i := 0; i < ln; i++ {
					m.writeElem(x.Arr, off+i, z)
				}
			}
			return nil
		}
	}
	if v, ok := m.unsafeBuiltin(b.Name(), args); ok {
		return v
	}
	m.unsupported("builtin %s on %T", b.Name(), args[0])
	return nil
}
