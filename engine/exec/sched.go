package exec

import (
	"fmt"
	"go/types"
	"runtime/debug"
	"strings"
	"sync"

	"gosym/sym"

	"golang.org/x/tools/go/ssa"
)

// Task is an interpreted goroutine. Exactly one task runs at a time; control
// is handed over explicitly at visible (synchronisation) operations.
type Task struct {
	id      int
	stack   []*Frame
	wake    chan struct{}
	done    bool
	enabled func() bool
	what    string
	name    string
}

type Sched struct {
	tasks    []*Task
	abort    bool
	final    interface{}
	preempts int
	wg       sync.WaitGroup
	switches int
}

type ChanObj struct {
	cap    int
	buf    []Value
	closed bool
	// unbuffered rendezvous
	pending  bool
	pendVal  Value
	taken    int // number of values taken (ack counter)
	sent     int
	id       int
	elem     types.Type
}

type mutexState struct {
	locked  bool
	owner   *Task
	readers int
}
type wgState struct{ n int64 }

func (m *Machine) runMain(fn *ssa.Function) {
	s := &Sched{}
	m.sched = s
	main := &Task{id: 0, wake: make(chan struct{}, 1), name: "main"}
	s.tasks = []*Task{main}
	m.task = main
	defer func() {
		r := recover()
		if s.final != nil && r != nil {
			if _, ok := r.(*pathEnd); ok {
				r = s.final
			}
		}
		// abort all other tasks and wait for them
		s.abort = true
		for _, t := range s.tasks[1:] {
			if !t.done {
				select {
				case t.wake <- struct{}{}:
				default:
				}
			}
		}
		s.wg.Wait()
		m.task = main
		if r != nil {
			panic(r)
		}
	}()
	m.callFn(fn, nil, nil)
	// harness returned: remaining live tasks are visible through vrt.LiveTasks
}

func (m *Machine) liveTasks() int {
	n := 0
	for _, t := range m.sched.tasks[1:] {
		if !t.done {
			n++
		}
	}
	return n
}

func (m *Machine) spawn(fv Value, args []Value) {
	s := m.sched
	t := &Task{id: len(s.tasks), wake: make(chan struct{}, 1)}
	if cl, ok := fv.(*Closure); ok && cl != nil && cl.Fn != nil {
		t.name = cl.Fn.String()
	}
	t.enabled = func() bool { return true }
	t.what = "start"
	s.tasks = append(s.tasks, t)
	s.wg.Add(1)
	go func() {
		defer s.wg.Done()
		<-t.wake
		if s.abort {
			t.done = true
			return
		}
		defer func() {
			t.done = true
			if r := recover(); r != nil {
				if s.abort {
					return // woken only to unwind
				}
				if _, ok := r.(*pathEnd); !ok {
					if _, ok := r.(*unsupportedErr); !ok {
						pos, _, st := m.curPos()
						r = fmt.Sprintf("engine panic in task: %v @ %s\n%s\n%s", r, pos, strings.Join(st, "\n"), trimStack(string(debug.Stack())))
					}
				}
				s.final = r
				s.abort = true
				// wake main so that the path terminates
				main := s.tasks[0]
				m.task = main
				main.wake <- struct{}{}
				return
			}
		}()
		m.callValue(fv, args)
		// task finished: hand control to another task
		t.done = true
		m.taskExit(t)
	}()
	// spawning is a visible operation
	m.visible("go", func() bool { return true }, func() {})
}

// parked waits until this task is scheduled again.
func (m *Machine) park(t *Task) {
	<-t.wake
	if m.sched.abort {
		panic(&pathEnd{"abort"})
	}
	m.task = t
}

func (m *Machine) switchTo(from, to *Task) {
	m.sched.switches++
	m.task = to
	to.wake <- struct{}{}
	m.park(from)
}

func (m *Machine) enabledTasks(except *Task) []*Task {
	var out []*Task
	for _, t := range m.sched.tasks {
		if t == except || t.done || t.enabled == nil {
			continue
		}
		if t.enabled() {
			out = append(out, t)
		}
	}
	return out
}

// visible performs a synchronisation operation of the running task: it is a
// scheduling point; do() runs atomically once the task is scheduled with enabled() true.
func (m *Machine) visible(what string, enabled func() bool, do func()) {
	s := m.sched
	t := m.task
	if len(s.tasks) == 1 {
		if !enabled() {
			m.deadlock(what)
		}
		do()
		return
	}
	t.enabled = enabled
	t.what = what
	for {
		self := enabled()
		others := m.enabledTasks(t)
		var opts []*Task
		if self {
			opts = append(opts, t)
			if s.preempts < m.Cfg.Preempt {
				opts = append(opts, others...)
			}
		} else {
			opts = others
		}
		if len(opts) == 0 {
			m.deadlock(what)
		}
		i := 0
		if len(opts) > 1 && (self || !m.Cfg.DetForced) {
			i = m.choice(len(opts))
		}
		if opts[i] == t {
			break
		}
		if self {
			s.preempts++
		}
		m.switchTo(t, opts[i])
		// rescheduled: whoever chose us saw enabled()==true and nothing ran in between
		if enabled() {
			break
		}
	}
	t.enabled = nil
	do()
}

func (m *Machine) taskExit(t *Task) {
	s := m.sched
	others := m.enabledTasks(t)
	if len(others) == 0 {
		// someone must still be alive (main at least); if all blocked: deadlock
		alive := false
		for _, o := range s.tasks {
			if !o.done {
				alive = true
			}
		}
		if alive {
			m.deadlock("task exit")
		}
		return
	}
	i := 0
	if len(others) > 1 && !m.Cfg.DetForced {
		i = m.choice(len(others))
	}
	s.switches++
	m.task = others[i]
	others[i].wake <- struct{}{}
}

func (m *Machine) deadlock(what string) {
	var sb strings.Builder
	for _, t := range m.sched.tasks {
		if t.done {
			continue
		}
		w := t.what
		if t == m.task {
			w = what
		}
		top := ""
		if len(t.stack) > 0 {
			fr := t.stack[len(t.stack)-1]
			top = fr.fn.String()
			if len(t.stack) > 1 {
				top = t.stack[len(t.stack)-2].fn.String() + " -> " + top
			}
		}
		fmt.Fprintf(&sb, "task %d (%s) blocked at %s in %s; ", t.id, t.name, w, top)
	}
	m.violation("deadlock", "all tasks blocked", nil, sb.String())
	m.endPath("deadlock")
}

// ---- channels ----

func (m *Machine) makeChan(t types.Type, size *sym.Term) Value {
	n := m.concretize(size, 64)
	m.nextID++
	return &ChanObj{cap: int(n), id: m.nextID, elem: t.Underlying().(*types.Chan).Elem()}
}

func (c *ChanObj) canSend() bool {
	if c.closed {
		return true // will panic
	}
	if c.cap > 0 {
		return len(c.buf) < c.cap
	}
	return !c.pending
}

func (c *ChanObj) canRecv() bool {
	if c.cap > 0 {
		return len(c.buf) > 0 || c.closed
	}
	return c.pending || c.closed
}

func (m *Machine) chanSend(c *ChanObj, v Value) {
	if c == nil {
		m.visible("send on nil chan", func() bool { return false }, func() {})
		return
	}
	m.visible("chan send", c.canSend, func() {
		if c.closed {
			m.goPanic("send on closed channel")
		}
		if c.cap > 0 {
			c.buf = append(c.buf, v)
		} else {
			c.pending = true
			c.pendVal = v
			c.sent++
		}
	})
	if c.cap == 0 {
		my := c.sent
		m.visible("chan send (rendezvous)", func() bool { return c.taken >= my }, func() {})
	}
}

func (m *Machine) doRecv(c *ChanObj) (Value, bool) {
	if c.cap > 0 {
		if len(c.buf) > 0 {
			v := c.buf[0]
			c.buf = append([]Value{}, c.buf[1:]...)
			return v, true
		}
		return m.zero(c.elem), false
	}
	if c.pending {
		v := c.pendVal
		c.pending = false
		c.pendVal = nil
		c.taken++
		return v, true
	}
	return m.zero(c.elem), false
}

func (m *Machine) chanRecv(c *ChanObj, commaOk bool, t types.Type) Value {
	if c == nil {
		m.visible("recv on nil chan", func() bool { return false }, func() {})
		return nil
	}
	var v Value
	var ok bool
	m.visible("chan recv", c.canRecv, func() { v, ok = m.doRecv(c) })
	if commaOk {
		return Tuple{v, m.ctx.Bool(ok)}
	}
	return v
}

func (m *Machine) chanClose(c *ChanObj) {
	if c == nil {
		m.goPanic("close of nil channel")
	}
	m.visible("chan close", func() bool { return true }, func() {
		if c.closed {
			m.goPanic("close of closed channel")
		}
		c.closed = true
	})
}

func (m *Machine) selectOp(fr *Frame, ins *ssa.Select) Value {
	type st struct {
		c    *ChanObj
		send bool
		v    Value
	}
	states := make([]st, len(ins.States))
	for i, s := range ins.States {
		states[i].c, _ = m.get(fr, s.Chan).(*ChanObj)
		if s.Dir == types.SendOnly {
			states[i].send = true
			states[i].v = m.get(fr, s.Send)
		}
	}
	ready := func() []int {
		var r []int
		for i, s := range states {
			if s.c == nil {
				continue
			}
			if s.send && s.c.canSend() || !s.send && s.c.canRecv() {
				r = append(r, i)
			}
		}
		return r
	}
	chosen := -1
	var rv Value
	rok := false
	m.visible("select", func() bool { return !ins.Blocking || len(ready()) > 0 }, func() {
		r := ready()
		if len(r) == 0 {
			return
		}
		i := 0
		if len(r) > 1 && !m.Cfg.DetForced {
			i = m.choice(len(r))
		}
		chosen = r[i]
		s := states[chosen]
		if s.send {
			if s.c.closed {
				m.goPanic("send on closed channel")
			}
			if s.c.cap > 0 {
				s.c.buf = append(s.c.buf, s.v)
			} else {
				s.c.pending = true
				s.c.pendVal = s.v
				s.c.sent++
			}
		} else {
			rv, rok = m.doRecv(s.c)
		}
	})
	if chosen >= 0 && states[chosen].send && states[chosen].c.cap == 0 {
		c := states[chosen].c
		my := c.sent
		m.visible("select send (rendezvous)", func() bool { return c.taken >= my }, func() {})
	}
	// result tuple: (index, recvOk, recv values...)
	res := Tuple{m.i64(int64(chosen)), m.ctx.Bool(rok)}
	for i, s := range ins.States {
		if s.Dir == types.RecvOnly {
			if i == chosen {
				res = append(res, rv)
			} else {
				res = append(res, m.zero(s.Chan.Type().Underlying().(*types.Chan).Elem()))
			}
		}
	}
	return res
}

// ---- sync natives ----

func (m *Machine) mutexOf(p Value) *mutexState {
	l := p.(Ptr).L
	if l == nil {
		m.goPanic("nil mutex")
	}
	if s, ok := m.ghost[l]; ok {
		return s.(*mutexState)
	}
	s := &mutexState{}
	m.ghost[l] = s
	return s
}

func (m *Machine) wgOf(p Value) *wgState {
	l := p.(Ptr).L
	if s, ok := m.ghost[l]; ok {
		return s.(*wgState)
	}
	s := &wgState{}
	m.ghost[l] = s
	return s
}

func registerSync(m *Machine) {
	lock := func(m *Machine, args []Value) Value {
		mu := m.mutexOf(args[0])
		m.visible("Mutex.Lock", func() bool { return !mu.locked && mu.readers == 0 }, func() {
			mu.locked = true
			mu.owner = m.task
		})
		return nil
	}
	unlock := func(m *Machine, args []Value) Value {
		mu := m.mutexOf(args[0])
		m.visible("Mutex.Unlock", func() bool { return true }, func() {
			if !mu.locked {
				m.violation("panic", "sync: unlock of unlocked mutex", nil, "")
				m.endPath("panic")
			}
			mu.locked = false
			mu.owner = nil
		})
		return nil
	}
	m.natives["(*sync.Mutex).Lock"] = lock
	m.natives["(*sync.Mutex).Unlock"] = unlock
	m.natives["(*sync.RWMutex).Lock"] = lock
	m.natives["(*sync.RWMutex).Unlock"] = unlock
	m.natives["(*sync.RWMutex).RLock"] = func(m *Machine, args []Value) Value {
		mu := m.mutexOf(args[0])
		m.visible("RWMutex.RLock", func() bool { return !mu.locked }, func() { mu.readers++ })
		return nil
	}
	m.natives["(*sync.RWMutex).RUnlock"] = func(m *Machine, args []Value) Value {
		mu := m.mutexOf(args[0])
		m.visible("RWMutex.RUnlock", func() bool { return true }, func() {
			if mu.readers <= 0 {
				m.violation("panic", "sync: RUnlock of unlocked RWMutex", nil, "")
				m.endPath("panic")
			}
			mu.readers--
		})
		return nil
	}
	m.natives["(*sync.WaitGroup).Add"] = func(m *Machine, args []Value) Value {
		wg := m.wgOf(args[0])
		d := m.concretize(args[1].(*sym.Term), 64)
		m.visible("WaitGroup.Add", func() bool { return true }, func() {
			wg.n += d
			if wg.n < 0 {
				m.violation("panic", "sync: negative WaitGroup counter", nil, "")
				m.endPath("panic")
			}
		})
		return nil
	}
	m.natives["(*sync.WaitGroup).Done"] = func(m *Machine, args []Value) Value {
		wg := m.wgOf(args[0])
		m.visible("WaitGroup.Done", func() bool { return true }, func() {
			wg.n--
			if wg.n < 0 {
				m.violation("panic", "sync: negative WaitGroup counter", nil, "")
				m.endPath("panic")
			}
		})
		return nil
	}
	m.natives["(*sync.WaitGroup).Wait"] = func(m *Machine, args []Value) Value {
		wg := m.wgOf(args[0])
		m.visible("WaitGroup.Wait", func() bool { return wg.n == 0 }, func() {})
		return nil
	}
	m.natives["(*sync.Once).Do"] = func(m *Machine, args []Value) Value {
		l := args[0].(Ptr).L
		if _, done := m.ghost[l]; done {
			return nil
		}
		m.ghost[l] = true
		m.callValue(args[1], nil)
		return nil
	}
	m.natives["runtime.GOMAXPROCS"] = func(m *Machine, args []Value) Value {
		n := 4
		if v, ok := m.Cfg.Params["gomaxprocs"]; ok {
			n = v
		}
		return m.i64(int64(n))
	}
	m.natives["runtime.Gosched"] = func(m *Machine, args []Value) Value {
		m.visible("Gosched", func() bool { return true }, func() {})
		return nil
	}
}
