package exec

import "go/types"

// Additional natives kept in their own file.

func init() { extraNatives = append(extraNatives, registerNatives3) }

func registerNatives3(m *Machine) {
	// encoding/binary.Size by static type (the real one caches through sync.Map and reflect)
	m.natives["encoding/binary.Size"] = func(m *Machine, a []Value) Value {
		data := a[0].(Iface)
		if data.T == nil {
			return m.i64(-1)
		}
		t := data.T
		if p, ok := t.Underlying().(*types.Pointer); ok {
			t = p.Elem()
		}
		if s, ok := t.Underlying().(*types.Slice); ok {
			sl := data.V.(Slice)
			_, ln := m.concSlice(sl)
			return m.i64(int64(ln * m.binSize(s.Elem())))
		}
		return m.i64(int64(m.binSize(t)))
	}
}
