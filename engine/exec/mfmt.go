package exec

import (
	"fmt"
	"go/types"
	"math"

	"gosym/sym"
)

// mfmt: a model of fmt.Sprintf/Sprint over interpreter values. Concrete
// operands are formatted by the real fmt with the same verb; symbolic operands
// support %d/%v (integers), %s/%v (strings, byte slices), %c, %x on bytes.

func (m *Machine) argList(v Value) []Iface {
	s, ok := v.(Slice)
	if !ok || s.Arr == nil {
		return nil
	}
	off, ln := m.concSlice(s)
	out := make([]Iface, ln)
	for i := range out {
		out[i] = m.readElem(s.Arr, off+i).(Iface)
	}
	return out
}

// goValue converts a concrete interpreter value to a native Go value for fmt.
func (m *Machine) goValue(a Iface, verb byte) (interface{}, bool) {
	if a.T == nil {
		return nil, true
	}
	// error / Stringer take precedence for %v %s %q
	if verb == 'v' || verb == 's' || verb == 'q' || verb == 'x' || verb == 'X' {
		if fn := m.lookupMethod(a.T, "Error"); fn != nil && fn.Signature.Params().Len() == 0 {
			if p, ok := a.V.(Ptr); ok && p.L == nil {
				return "<nil>", true
			}
			r := m.callFn(fn, []Value{a.V}, nil)
			if s, ok := r.(Str); ok && s.B == nil {
				return s.S, true
			}
			return nil, false
		}
		if fn := m.lookupMethod(a.T, "String"); fn != nil && fn.Signature.Params().Len() == 0 && fn.Signature.Results().Len() == 1 {
			if p, ok := a.V.(Ptr); ok && p.L == nil {
				return "<nil>", true
			}
			r := m.callFn(fn, []Value{a.V}, nil)
			if s, ok := r.(Str); ok && s.B == nil {
				return s.S, true
			}
			return nil, false
		}
	}
	switch x := a.V.(type) {
	case *sym.Term:
		if !x.IsConst() {
			return nil, false
		}
		if x.W == 0 {
			return x.Val != 0, true
		}
		w, signed, _ := typeIntInfo(a.T)
		if signed {
			switch w {
			case 8:
				return int8(x.Int()), true
			case 16:
				return int16(x.Int()), true
			case 32:
				return int32(x.Int()), true
			}
			return x.Int(), true
		}
		switch w {
		case 8:
			return uint8(x.Uint()), true
		case 16:
			return uint16(x.Uint()), true
		case 32:
			return uint32(x.Uint()), true
		}
		return x.Uint(), true
	case Str:
		if x.B != nil {
			return nil, false
		}
		return x.S, true
	case Float:
		if !x.Bits.IsConst() {
			return nil, false
		}
		if x.W == 32 {
			return math.Float32frombits(uint32(x.Bits.Val)), true
		}
		return math.Float64frombits(x.Bits.Val), true
	case Slice:
		if st, ok := a.T.Underlying().(*types.Slice); ok {
			if b, ok := st.Elem().Underlying().(*types.Basic); ok && b.Kind() == types.Uint8 {
				ts := m.sliceTerms(x)
				bs := make([]byte, len(ts))
				for i, t := range ts {
					if !t.IsConst() {
						return nil, false
					}
					bs[i] = byte(t.Val)
				}
				return bs, true
			}
		}
	}
	return nil, false
}

// decimal formats a (possibly symbolic) integer term in base 10.
func (m *Machine) decimal(x *sym.Term, signed bool) []*sym.Term {
	c := m.ctx
	if x.IsConst() {
		var s string
		if signed {
			s = fmt.Sprint(x.Int())
		} else {
			s = fmt.Sprint(x.Uint())
		}
		return m.strBytes(Str{S: s})
	}
	if m.lenientFmt {
		// totality harnesses never look at the text: no fork per digit count and sign
		return m.strBytes(Str{S: "1"})
	}
	x64 := c.Resize(x, 64, signed)
	neg := false
	mag := x64
	if signed && m.branch(c.SLT(x64, m.i64(0))) {
		neg = true
		mag = c.Neg(x64)
	}
	// number of digits
	nd := 20
	p := uint64(10)
	for k := 1; k < 20; k++ {
		if m.branch(c.ULT(mag, c.BV(64, p))) {
			nd = k
			break
		}
		p *= 10
	}
	out := []*sym.Term{}
	if neg {
		out = append(out, c.BV(8, '-'))
	}
	digits := make([]*sym.Term, nd)
	// the digit arithmetic is done in the narrowest width that holds 10^nd
	// (the value is known to be below 10^nd on this path)
	w := 64
	switch {
	case nd <= 2:
		w = 8
	case nd <= 4:
		w = 16
	case nd <= 9:
		w = 32
	}
	nm := c.Resize(mag, w, false)
	div := uint64(1)
	for i := nd - 1; i >= 0; i-- {
		d := c.URem(c.UDiv(nm, c.BV(w, div)), c.BV(w, 10))
		// '0'+d for d < 10 is 0x3d: written as a concatenation so that comparisons
		// of the digit with separators fold syntactically
		digits[i] = c.Concat(c.BV(4, 3), c.Extract(d, 3, 0))
		div *= 10
	}
	return append(out, digits...)
}

func (m *Machine) symFormat(a Iface, verb byte, spec string) []*sym.Term {
	switch x := a.V.(type) {
	case *sym.Term:
		if x.W == 0 {
			if m.branch(x) {
				return m.strBytes(Str{S: "true"})
			}
			return m.strBytes(Str{S: "false"})
		}
		_, signed, _ := typeIntInfo(a.T)
		switch verb {
		case 'd', 'v':
			if spec == "%d" || spec == "%v" {
				return m.decimal(x, signed)
			}
		case 'c':
			if x.W == 8 {
				if !m.lenientFmt {
					m.check(m.ctx.ULT(x, m.ctx.BV(8, 0x80)), "unsupported", "%c of non-ASCII symbolic byte")
				}
				return []*sym.Term{x}
			}
		}
		// fall back: concretize small domains
		v := m.concretize(x, 300)
		return m.strBytes(Str{S: m.realFmt(spec, m.mustGo(Iface{T: a.T, V: m.ctx.BV(x.W, uint64(v))}, verb))})
	case Str:
		if verb == 's' || verb == 'v' {
			if spec == "%s" || spec == "%v" {
				return m.strBytes(x)
			}
		}
	case Slice:
		if verb == 's' && spec == "%s" {
			return m.sliceTerms(x)
		}
		if verb == 'x' && (spec == "%x" || spec == "%02x") {
			return m.hexBytes(m.sliceTerms(x))
		}
	}
	m.unsupported("fmt: symbolic operand of type %v with %s", a.T, spec)
	return nil
}

func (m *Machine) mustGo(a Iface, verb byte) interface{} {
	g, ok := m.goValue(a, verb)
	if !ok {
		m.unsupported("fmt: operand not concrete")
	}
	return g
}

func (m *Machine) realFmt(spec string, g interface{}) string {
	return fmt.Sprintf(spec, g)
}

func (m *Machine) sprintf(format Str, argv Value) (res Str) {
	if m.lenientFmt {
		defer func() {
			if r := recover(); r != nil {
				if _, ok := r.(*unsupportedErr); ok {
					res = Str{S: "<fmt>"}
					return
				}
				panic(r)
			}
		}()
	}
	if format.B != nil {
		m.unsupported("fmt: symbolic format string")
	}
	f := format.S
	args := m.argList(argv)
	var out []*sym.Term
	ai := 0
	for i := 0; i < len(f); {
		if f[i] != '%' {
			out = append(out, m.ctx.BV(8, uint64(f[i])))
			i++
			continue
		}
		j := i + 1
		for j < len(f) && (f[j] == '+' || f[j] == '-' || f[j] == '#' || f[j] == ' ' || f[j] == '0' || (f[j] >= '1' && f[j] <= '9') || f[j] == '.') {
			j++
		}
		if j >= len(f) {
			out = append(out, m.strBytes(Str{S: "%!(NOVERB)"})...)
			break
		}
		verb := f[j]
		spec := f[i : j+1]
		i = j + 1
		if verb == '%' {
			out = append(out, m.ctx.BV(8, '%'))
			continue
		}
		if ai >= len(args) {
			out = append(out, m.strBytes(Str{S: "%!" + string(verb) + "(MISSING)"})...)
			continue
		}
		a := args[ai]
		ai++
		if verb == 'w' {
			verb = 'v'
			spec = spec[:len(spec)-1] + "v"
		}
		if verb == 'T' {
			out = append(out, m.strBytes(Str{S: fmt.Sprint(a.T)})...)
			continue
		}
		if s, ok := m.stringerBytes(a, verb, spec); ok {
			out = append(out, s...)
		} else if g, ok := m.goValue(a, verb); ok {
			out = append(out, m.strBytes(Str{S: m.realFmt(spec, g)})...)
		} else {
			out = append(out, m.symFormat(a, verb, spec)...)
		}
	}
	return m.mkStr(out)
}

func (m *Machine) sprint(argv Value, ln bool) (res Str) {
	if m.lenientFmt {
		defer func() {
			if r := recover(); r != nil {
				if _, ok := r.(*unsupportedErr); ok {
					res = Str{S: "<fmt>"}
					return
				}
				panic(r)
			}
		}()
	}
	args := m.argList(argv)
	var out []*sym.Term
	prevString := false
	for i, a := range args {
		_, isStr := a.V.(Str)
		if i > 0 && (ln || (!isStr && !prevString)) {
			out = append(out, m.ctx.BV(8, ' '))
		}
		if g, ok := m.goValue(a, 'v'); ok {
			out = append(out, m.strBytes(Str{S: fmt.Sprint(g)})...)
		} else {
			out = append(out, m.symFormat(a, 'v', "%v")...)
		}
		prevString = isStr
	}
	if ln {
		out = append(out, m.ctx.BV(8, '\n'))
	}
	return m.mkStr(out)
}
