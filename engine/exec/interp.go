package exec

import (
	"fmt"
	"go/constant"
	"go/token"
	"go/types"
	"math"
	"time"

	"gosym/sym"

	"golang.org/x/tools/go/ssa"
)

type deferred struct {
	fn   Value
	args []Value
	call *ssa.CallCommon
}

type Frame struct {
	fn     *ssa.Function
	info   *fnInfo
	env    []Value
	cur    ssa.Instruction
	defers []deferred
	visits map[*ssa.BasicBlock]int
	free   []Value
}

type fnInfo struct {
	index map[ssa.Value]int
	n     int
}

func (m *Machine) info(fn *ssa.Function) *fnInfo {
	if fi, ok := m.fnInfos[fn]; ok {
		return fi
	}
	fi := &fnInfo{index: map[ssa.Value]int{}}
	for _, p := range fn.Params {
		fi.index[p] = fi.n
		fi.n++
	}
	for _, p := range fn.FreeVars {
		fi.index[p] = fi.n
		fi.n++
	}
	for _, b := range fn.Blocks {
		for _, in := range b.Instrs {
			if v, ok := in.(ssa.Value); ok {
				fi.index[v] = fi.n
				fi.n++
			}
		}
	}
	m.fnInfos[fn] = fi
	return fi
}

func (m *Machine) constValue(c *ssa.Const) Value {
	t := c.Type()
	if c.Value == nil {
		return m.zero(t)
	}
	switch u := t.Underlying().(type) {
	case *types.Basic:
		if w, _, ok := typeIntInfo(t); ok {
			if u.Kind() == types.UntypedRune {
				w = 32
			}
			v := constant.ToInt(c.Value)
			if i, exact := constant.Int64Val(v); exact {
				return m.ctx.BV(w, uint64(i))
			}
			if ui, exact := constant.Uint64Val(v); exact {
				return m.ctx.BV(w, ui)
			}
			m.unsupported("constant out of range %s", c)
		}
		switch u.Kind() {
		case types.Bool, types.UntypedBool:
			return m.ctx.Bool(constant.BoolVal(c.Value))
		case types.String, types.UntypedString:
			return Str{S: constant.StringVal(c.Value)}
		case types.Float32:
			f, _ := constant.Float64Val(c.Value)
			return Float{32, m.ctx.BV(32, uint64(math.Float32bits(float32(f))))}
		case types.Float64, types.UntypedFloat:
			f, _ := constant.Float64Val(c.Value)
			return Float{64, m.ctx.BV(64, math.Float64bits(f))}
		}
	case *types.Interface:
		// typed constant converted to interface cannot occur (MakeInterface is explicit)
	}
	m.unsupported("constant %s of type %s", c, t)
	return nil
}

func (m *Machine) get(fr *Frame, v ssa.Value) Value {
	switch x := v.(type) {
	case *ssa.Const:
		return m.constValue(x)
	case *ssa.Function:
		return &Closure{Fn: x}
	case *ssa.Global:
		return Ptr{L: m.global(x), I: -1}
	case *ssa.Builtin:
		return &Closure{Native: "builtin:" + x.Name()}
	}
	i, ok := fr.info.index[v]
	if !ok {
		m.unsupported("unknown ssa value %T %s", v, v.Name())
	}
	return fr.env[i]
}

func (m *Machine) set(fr *Frame, v ssa.Value, val Value) {
	fr.env[fr.info.index[v]] = val
}

// callClosure calls a function value.
func (m *Machine) callValue(fv Value, args []Value) Value {
	cl, ok := fv.(*Closure)
	if !ok || cl == nil {
		m.goPanic("call of nil function")
	}
	if cl.Native != "" {
		if rt, ok := cl.Recv.(ReflType); ok {
			return m.reflTypeMethod(rt, cl.Native[len("reflect.Type."):], args)
		}
		nf, ok := m.natives[cl.Native]
		if !ok {
			m.unsupported("native %s", cl.Native)
		}
		if cl.Recv != nil {
			args = append([]Value{cl.Recv}, args...)
		}
		return nf(m, args)
	}
	return m.callFn(cl.Fn, args, cl.Bindings)
}

func (m *Machine) callFn(fn *ssa.Function, args []Value, free []Value) Value {
	if repl, ok := m.Cfg.Stubs[fn.String()]; ok && fn.Pkg != nil {
		// harness-declared stub: a function of the same package stands in for fn
		if rf := fn.Pkg.Func(repl); rf != nil && rf != fn {
			return m.callFn(rf, args, nil)
		}
		m.unsupported("stub %s for %s not found", repl, fn.String())
	}
	if nf, ok := m.natives[fn.String()]; ok {
		return nf(m, args)
	}
	if fn.Blocks == nil {
		// try the generic origin / synthetic wrappers
		m.unsupported("function without body: %s", fn.String())
	}
	m.FuncsRun[fn]++
	t := m.task
	if len(t.stack) >= m.Cfg.MaxDepth {
		m.Stats.UnwindHits++
		m.unsupported("UNWIND: call depth %d exceeded in %s", m.Cfg.MaxDepth, fn.String())
	}
	fi := m.info(fn)
	fr := &Frame{fn: fn, info: fi, env: make([]Value, fi.n), free: free}
	for i, p := range fn.Params {
		if i < len(args) {
			fr.env[fi.index[p]] = args[i]
		}
	}
	for i, p := range fn.FreeVars {
		fr.env[fi.index[p]] = free[i]
	}
	t.stack = append(t.stack, fr)
	ret := m.run(fr)
	t.stack = t.stack[:len(t.stack)-1]
	return ret
}

func (m *Machine) run(fr *Frame) Value {
	block := fr.fn.Blocks[0]
	var prev *ssa.BasicBlock
	for {
		// loop bound
		if len(block.Preds) > 1 && m.initMode == 0 {
			if fr.visits == nil {
				fr.visits = map[*ssa.BasicBlock]int{}
			}
			fr.visits[block]++
			if fr.visits[block] > m.Cfg.MaxVisits {
				fr.cur = block.Instrs[0]
				if m.Cfg.UnwindIsHang {
					// totality harnesses: a loop that exceeds the bound on a bounded input is a
					// hang candidate; the native replay (20 s watchdog) confirms or refutes it
					m.violation("deadlock", "loop bound exceeded in "+fr.fn.String(), nil, "hang candidate")
					m.endPath("hang candidate")
				}
				m.Stats.UnwindHits++
				m.unsupported("UNWIND: block visited more than %d times in %s", m.Cfg.MaxVisits, fr.fn.String())
			}
		}
		// phis: parallel assignment
		nphi := 0
		for _, in := range block.Instrs {
			if _, ok := in.(*ssa.Phi); !ok {
				break
			}
			nphi++
		}
		if nphi > 0 {
			pi := -1
			for i, p := range block.Preds {
				if p == prev {
					pi = i
					break
				}
			}
			vals := make([]Value, nphi)
			for i := 0; i < nphi; i++ {
				vals[i] = m.get(fr, block.Instrs[i].(*ssa.Phi).Edges[pi])
			}
			for i := 0; i < nphi; i++ {
				m.set(fr, block.Instrs[i].(*ssa.Phi), vals[i])
			}
		}
		var next *ssa.BasicBlock
		for _, in := range block.Instrs[nphi:] {
			fr.cur = in
			m.steps++
			if m.steps&0xfff == 0 && !m.Cfg.Deadline.IsZero() && time.Now().After(m.Cfg.Deadline) {
				m.deadlineHit = true
				m.endPath("deadline")
			}
			if m.steps > m.Cfg.MaxSteps && m.initMode == 0 {
				m.Stats.UnwindHits++
				m.unsupported("UNWIND: step limit %d exceeded", m.Cfg.MaxSteps)
			}
			switch ins := in.(type) {
			case *ssa.If:
				c := m.get(fr, ins.Cond).(*sym.Term)
				if m.branch(c) {
					next = block.Succs[0]
				} else {
					next = block.Succs[1]
				}
			case *ssa.Jump:
				next = block.Succs[0]
			case *ssa.Return:
				switch len(ins.Results) {
				case 0:
					return nil
				case 1:
					return m.get(fr, ins.Results[0])
				}
				tp := make(Tuple, len(ins.Results))
				for i, r := range ins.Results {
					tp[i] = m.get(fr, r)
				}
				return tp
			case *ssa.Panic:
				v := m.get(fr, ins.X)
				m.violation("panic", "explicit panic: "+m.panicText(v), nil, "")
				m.endPath("panic")
			default:
				m.exec(fr, in)
			}
		}
		prev = block
		block = next
	}
}

func (m *Machine) panicText(v Value) string {
	if i, ok := v.(Iface); ok {
		if s, ok := i.V.(Str); ok && s.B == nil {
			return s.S
		}
		if i.T != nil {
			// error values: try Error() on simple errorString-like structs
			if p, ok := i.V.(Ptr); ok && p.L != nil && len(p.L.Kids) > 0 {
				if s, ok := p.L.Kids[0].V.(Str); ok && s.B == nil {
					return s.S
				}
			}
			return i.T.String()
		}
	}
	return describe(v)
}

func (m *Machine) exec(fr *Frame, in ssa.Instruction) {
	switch ins := in.(type) {
	case *ssa.DebugRef:
	case *ssa.Alloc:
		l := m.newLoc(ins.Type().Underlying().(*types.Pointer).Elem())
		m.set(fr, ins, Ptr{L: l, I: -1})
	case *ssa.BinOp:
		m.set(fr, ins, m.binop(ins.Op, ins.X.Type(), m.get(fr, ins.X), m.get(fr, ins.Y), ins.Y.Type()))
	case *ssa.UnOp:
		m.set(fr, ins, m.unop(fr, ins))
	case *ssa.Call:
		m.set(fr, ins, m.doCall(fr, &ins.Call))
	case *ssa.ChangeInterface:
		m.set(fr, ins, m.get(fr, ins.X))
	case *ssa.ChangeType:
		m.set(fr, ins, m.get(fr, ins.X))
	case *ssa.Convert:
		m.set(fr, ins, m.convert(m.get(fr, ins.X), ins.X.Type(), ins.Type()))
	case *ssa.MultiConvert:
		m.set(fr, ins, m.convert(m.get(fr, ins.X), ins.X.Type(), ins.Type()))
	case *ssa.SliceToArrayPointer:
		s := m.get(fr, ins.X).(Slice)
		at := ins.Type().Underlying().(*types.Pointer).Elem().Underlying().(*types.Array)
		n := at.Len()
		m.check(m.ctx.SLE(m.i64(n), s.Len), "panic", "slice to array pointer: length too short")
		if s.Arr == nil {
			m.set(fr, ins, Ptr{})
			break
		}
		off := m.concretize(s.Off, 64)
		if off == 0 && int64(s.Arr.arrayLen()) == n {
			m.set(fr, ins, Ptr{L: s.Arr, I: -1})
		} else {
			m.unsupported("slice to array pointer with offset")
		}
	case *ssa.Extract:
		m.set(fr, ins, m.get(fr, ins.Tuple).(Tuple)[ins.Index])
	case *ssa.Field:
		m.set(fr, ins, m.get(fr, ins.X).(Struct)[ins.Field])
	case *ssa.FieldAddr:
		p := m.get(fr, ins.X).(Ptr)
		if p.L == nil {
			m.goPanic("runtime error: invalid memory address or nil pointer dereference")
		}
		if p.I == -2 && p.L.Kids != nil {
			i := m.concretize(p.Idx, 4096)
			p = Ptr{L: p.L.Kids[i], I: -1}
		}
		if p.I != -1 {
			m.unsupported("field address of compact element")
		}
		m.set(fr, ins, Ptr{L: p.L.Kids[ins.Field], I: -1})
	case *ssa.Index:
		m.set(fr, ins, m.index(fr, ins))
	case *ssa.IndexAddr:
		m.set(fr, ins, m.indexAddr(fr, ins))
	case *ssa.Lookup:
		m.set(fr, ins, m.lookup(fr, ins))
	case *ssa.MakeClosure:
		b := make([]Value, len(ins.Bindings))
		for i, x := range ins.Bindings {
			b[i] = m.get(fr, x)
		}
		m.set(fr, ins, &Closure{Fn: ins.Fn.(*ssa.Function), Bindings: b})
	case *ssa.MakeInterface:
		m.set(fr, ins, Iface{T: ins.X.Type(), V: m.get(fr, ins.X)})
	case *ssa.MakeMap:
		mt := ins.Type().Underlying().(*types.Map)
		m.nextID++
		m.set(fr, ins, &MapObj{KT: mt.Key(), VT: mt.Elem(), ID: m.nextID})
	case *ssa.MakeSlice:
		m.set(fr, ins, m.makeSlice(ins.Type().Underlying().(*types.Slice).Elem(), m.toIdx(m.get(fr, ins.Len), ins.Len.Type()), m.toIdx(m.get(fr, ins.Cap), ins.Cap.Type())))
	case *ssa.MapUpdate:
		mo := m.get(fr, ins.Map).(*MapObj)
		if mo == nil {
			m.goPanic("assignment to entry in nil map")
		}
		m.mapUpdate(mo, m.get(fr, ins.Key), m.get(fr, ins.Value))
	case *ssa.Next:
		m.set(fr, ins, m.rangeNext(ins, m.get(fr, ins.Iter).(*RangeIter)))
	case *ssa.Range:
		m.set(fr, ins, m.rangeStart(m.get(fr, ins.X)))
	case *ssa.Slice:
		m.set(fr, ins, m.sliceOp(fr, ins))
	case *ssa.Store:
		m.store(m.get(fr, ins.Addr).(Ptr), m.get(fr, ins.Val))
	case *ssa.TypeAssert:
		m.set(fr, ins, m.typeAssert(ins, m.get(fr, ins.X).(Iface)))
	case *ssa.Defer:
		d := deferred{call: &ins.Call}
		d.fn, d.args = m.prepareCall(fr, &ins.Call)
		fr.defers = append(fr.defers, d)
	case *ssa.RunDefers:
		for len(fr.defers) > 0 {
			d := fr.defers[len(fr.defers)-1]
			fr.defers = fr.defers[:len(fr.defers)-1]
			m.callPrepared(d.fn, d.args)
		}
	case *ssa.Go:
		fn, args := m.prepareCall(fr, &ins.Call)
		m.spawn(fn, args)
	case *ssa.MakeChan:
		m.set(fr, ins, m.makeChan(ins.Type(), m.get(fr, ins.Size).(*sym.Term)))
	case *ssa.Send:
		m.chanSend(m.get(fr, ins.Chan).(*ChanObj), m.get(fr, ins.X))
	case *ssa.Select:
		m.set(fr, ins, m.selectOp(fr, ins))
	default:
		m.unsupported("instruction %T", in)
	}
}

// prepareCall resolves the callee and evaluates arguments.
func (m *Machine) prepareCall(fr *Frame, c *ssa.CallCommon) (Value, []Value) {
	var args []Value
	var fv Value
	if c.IsInvoke() {
		recv := m.get(fr, c.Value).(Iface)
		if recv.T == nil {
			m.goPanic("runtime error: invalid memory address or nil pointer dereference (nil interface method call)")
		}
		if rt, ok := recv.V.(ReflType); ok {
			name := c.Method.Name()
			for _, a := range c.Args {
				args = append(args, m.get(fr, a))
			}
			return &Closure{Native: "reflect.Type." + name, Recv: rt}, args
		}
		fn := m.prog.LookupMethod(recv.T, c.Method.Pkg(), c.Method.Name())
		if fn == nil {
			m.unsupported("method %s not found on %s", c.Method.Name(), recv.T)
		}
		fv = &Closure{Fn: fn}
		args = append(args, recv.V)
	} else {
		fv = m.get(fr, c.Value)
	}
	for _, a := range c.Args {
		args = append(args, m.get(fr, a))
	}
	return fv, args
}

func (m *Machine) callPrepared(fv Value, args []Value) Value {
	return m.callValue(fv, args)
}

func (m *Machine) doCall(fr *Frame, c *ssa.CallCommon) Value {
	if b, ok := c.Value.(*ssa.Builtin); ok {
		args := make([]Value, len(c.Args))
		for i, a := range c.Args {
			args[i] = m.get(fr, a)
		}
		return m.builtin(fr, b, c, args)
	}
	fv, args := m.prepareCall(fr, c)
	return m.callValue(fv, args)
}

func (m *Machine) unop(fr *Frame, ins *ssa.UnOp) Value {
	x := m.get(fr, ins.X)
	switch ins.Op {
	case token.MUL: // load
		return m.load(x.(Ptr))
	case token.NOT:
		return m.ctx.Not(x.(*sym.Term))
	case token.SUB:
		switch v := x.(type) {
		case *sym.Term:
			return m.ctx.Neg(v)
		case Float:
			if v.Bits.IsConst() {
				if v.W == 32 {
					return Float{32, m.ctx.BV(32, uint64(math.Float32bits(-math.Float32frombits(uint32(v.Bits.Val)))))}
				}
				return Float{64, m.ctx.BV(64, math.Float64bits(-math.Float64frombits(v.Bits.Val)))}
			}
		}
		m.unsupported("negation of %T", x)
	case token.XOR:
		return m.ctx.BNot(x.(*sym.Term))
	case token.ARROW:
		return m.chanRecv(x.(*ChanObj), ins.CommaOk, ins.Type())
	}
	m.unsupported("unop %s", ins.Op)
	return nil
}

func (m *Machine) floatConst(f Float) (float64, bool) {
	if !f.Bits.IsConst() {
		return 0, false
	}
	if f.W == 32 {
		return float64(math.Float32frombits(uint32(f.Bits.Val))), true
	}
	return math.Float64frombits(f.Bits.Val), true
}

func (m *Machine) mkFloat(w int, f float64) Float {
	if w == 32 {
		return Float{32, m.ctx.BV(32, uint64(math.Float32bits(float32(f))))}
	}
	return Float{64, m.ctx.BV(64, math.Float64bits(f))}
}

func (m *Machine) binop(op token.Token, xt types.Type, x, y Value, yt types.Type) Value {
	c := m.ctx
	switch a := x.(type) {
	case *sym.Term:
		b, ok := y.(*sym.Term)
		if !ok {
			m.unsupported("binop operand mismatch %T", y)
		}
		if a.W == 0 { // bool
			switch op {
			case token.EQL:
				return c.Eq(a, b)
			case token.NEQ:
				return c.Not(c.Eq(a, b))
			case token.AND:
				return c.And(a, b)
			case token.OR:
				return c.Or(a, b)
			}
			m.unsupported("bool binop %s", op)
		}
		_, signed, _ := typeIntInfo(xt)
		switch op {
		case token.ADD:
			return c.Add(a, b)
		case token.SUB:
			return c.Sub(a, b)
		case token.MUL:
			return c.Mul(a, b)
		case token.QUO:
			m.check(c.Not(c.Eq(b, c.BV(b.W, 0))), "panic", "runtime error: integer divide by zero")
			if signed {
				return c.SDiv(a, b)
			}
			return c.UDiv(a, b)
		case token.REM:
			m.check(c.Not(c.Eq(b, c.BV(b.W, 0))), "panic", "runtime error: integer divide by zero")
			if signed {
				return c.SRem(a, b)
			}
			return c.URem(a, b)
		case token.AND:
			return c.BAnd(a, b)
		case token.OR:
			return c.BOr(a, b)
		case token.XOR:
			return c.BXor(a, b)
		case token.AND_NOT:
			return c.BAnd(a, c.BNot(b))
		case token.SHL, token.SHR:
			_, ysigned, _ := typeIntInfo(yt)
			if ysigned {
				m.check(c.SLE(c.BV(b.W, 0), b), "panic", "runtime error: negative shift amount")
			}
			cnt := b
			if b.W > a.W {
				big := c.ULE(c.BV(b.W, uint64(a.W)), b)
				cnt = c.Ite(big, c.BV(a.W, uint64(a.W)), c.Extract(b, a.W-1, 0))
			} else if b.W < a.W {
				cnt = c.ZExt(b, a.W)
			}
			if op == token.SHL {
				return c.Shl(a, cnt)
			}
			if signed {
				return c.AShr(a, cnt)
			}
			return c.LShr(a, cnt)
		case token.EQL:
			return c.Eq(a, b)
		case token.NEQ:
			return c.Not(c.Eq(a, b))
		case token.LSS:
			if signed {
				return c.SLT(a, b)
			}
			return c.ULT(a, b)
		case token.LEQ:
			if signed {
				return c.SLE(a, b)
			}
			return c.ULE(a, b)
		case token.GTR:
			if signed {
				return c.SLT(b, a)
			}
			return c.ULT(b, a)
		case token.GEQ:
			if signed {
				return c.SLE(b, a)
			}
			return c.ULE(b, a)
		}
		m.unsupported("int binop %s", op)
	case Str:
		b := y.(Str)
		switch op {
		case token.ADD:
			if a.B == nil && b.B == nil {
				return Str{S: a.S + b.S}
			}
			return m.mkStr(append(append([]*sym.Term{}, m.strBytes(a)...), m.strBytes(b)...))
		case token.EQL:
			return m.strEq(a, b)
		case token.NEQ:
			return c.Not(m.strEq(a, b))
		case token.LSS:
			return m.strLess(a, b, false)
		case token.LEQ:
			return m.strLess(a, b, true)
		case token.GTR:
			return m.strLess(b, a, false)
		case token.GEQ:
			return m.strLess(b, a, true)
		}
		m.unsupported("string binop %s", op)
	case Float:
		b := y.(Float)
		fa, oka := m.floatConst(a)
		fb, okb := m.floatConst(b)
		if oka && okb {
			switch op {
			case token.ADD:
				return m.mkFloat(a.W, fa+fb)
			case token.SUB:
				return m.mkFloat(a.W, fa-fb)
			case token.MUL:
				return m.mkFloat(a.W, fa*fb)
			case token.QUO:
				return m.mkFloat(a.W, fa/fb)
			case token.EQL:
				return c.Bool(fa == fb)
			case token.NEQ:
				return c.Bool(fa != fb)
			case token.LSS:
				return c.Bool(fa < fb)
			case token.LEQ:
				return c.Bool(fa <= fb)
			case token.GTR:
				return c.Bool(fa > fb)
			case token.GEQ:
				return c.Bool(fa >= fb)
			}
		}
		m.unsupported("symbolic float binop %s", op)
	}
	// reference-like and aggregate equality
	switch op {
	case token.EQL:
		return m.valueEq(x, y)
	case token.NEQ:
		return c.Not(m.valueEq(x, y))
	}
	m.unsupported("binop %s on %T", op, x)
	return nil
}

func (m *Machine) strEq(a, b Str) *sym.Term {
	if a.Len() != b.Len() {
		return m.ctx.False
	}
	if a.B == nil && b.B == nil {
		return m.ctx.Bool(a.S == b.S)
	}
	ab, bb := m.strBytes(a), m.strBytes(b)
	r := m.ctx.True
	for i := range ab {
		r = m.ctx.And(r, m.ctx.Eq(ab[i], bb[i]))
		if r.IsFalse() {
			break
		}
	}
	return r
}

func (m *Machine) strLess(a, b Str, orEq bool) *sym.Term {
	if a.B == nil && b.B == nil {
		if orEq {
			return m.ctx.Bool(a.S <= b.S)
		}
		return m.ctx.Bool(a.S < b.S)
	}
	ab, bb := m.strBytes(a), m.strBytes(b)
	n := len(ab)
	if len(bb) < n {
		n = len(bb)
	}
	// result for equal common prefix
	var tail *sym.Term
	switch {
	case len(ab) < len(bb):
		tail = m.ctx.True
	case len(ab) > len(bb):
		tail = m.ctx.False
	default:
		tail = m.ctx.Bool(orEq)
	}
	r := tail
	for i := n - 1; i >= 0; i-- {
		r = m.ctx.Ite(m.ctx.Eq(ab[i], bb[i]), r, m.ctx.ULT(ab[i], bb[i]))
	}
	return r
}

// valueEq implements Go == on arbitrary comparable values.
func (m *Machine) valueEq(x, y Value) *sym.Term {
	c := m.ctx
	switch a := x.(type) {
	case *sym.Term:
		return c.Eq(a, y.(*sym.Term))
	case Str:
		return m.strEq(a, y.(Str))
	case Float:
		b := y.(Float)
		fa, oka := m.floatConst(a)
		fb, okb := m.floatConst(b)
		if oka && okb {
			return c.Bool(fa == fb)
		}
		m.unsupported("symbolic float equality")
	case Ptr:
		b, ok := y.(Ptr)
		if !ok {
			return c.False
		}
		if a.L != b.L {
			return c.False
		}
		if a.L == nil {
			return c.True
		}
		if a.I == -2 || b.I == -2 {
			ai, bi := a.Idx, b.Idx
			if a.I != -2 {
				ai = m.i64(int64(a.I))
			}
			if b.I != -2 {
				bi = m.i64(int64(b.I))
			}
			return c.Eq(ai, bi)
		}
		return c.Bool(a.I == b.I)
	case Slice:
		b := y.(Slice)
		if a.Arr == nil && b.Arr == nil {
			return c.True
		}
		if a.Arr == nil || b.Arr == nil {
			return c.False
		}
		m.unsupported("slice comparison")
	case *MapObj:
		b := y.(*MapObj)
		return c.Bool(a == b)
	case *ChanObj:
		b := y.(*ChanObj)
		return c.Bool(a == b)
	case *Closure:
		b := y.(*Closure)
		if a == nil || b == nil {
			return c.Bool(a == nil && b == nil)
		}
		m.unsupported("func comparison")
	case Iface:
		b, ok := y.(Iface)
		if !ok {
			// comparing interface with concrete value
			m.unsupported("iface/concrete comparison")
		}
		if a.T == nil || b.T == nil {
			return c.Bool(a.T == nil && b.T == nil)
		}
		if !types.Identical(a.T, b.T) {
			return c.False
		}
		return m.valueEq(a.V, b.V)
	case Struct:
		b := y.(Struct)
		r := c.True
		for i := range a {
			r = c.And(r, m.valueEq(a[i], b[i]))
		}
		return r
	case Array:
		b := y.(Array)
		r := c.True
		for i := range a {
			r = c.And(r, m.valueEq(a[i], b[i]))
		}
		return r
	case nil:
		return c.Bool(y == nil)
	}
	m.unsupported("equality on %T", x)
	return nil
}

func (m *Machine) convert(x Value, from, to types.Type) Value {
	c := m.ctx
	fu, tu := from.Underlying(), to.Underlying()
	// integer -> integer / float / string
	if fw, fsigned, ok := typeIntInfo(from); ok {
		xt := x.(*sym.Term)
		if tw, _, ok := typeIntInfo(to); ok {
			_ = fw
			return c.Resize(xt, tw, fsigned)
		}
		if w, ok := isFloat(to); ok {
			if xt.IsConst() {
				if fsigned {
					return m.mkFloat(w, float64(xt.Int()))
				}
				return m.mkFloat(w, float64(xt.Uint()))
			}
			m.unsupported("symbolic int->float conversion")
		}
		if tb, ok := tu.(*types.Basic); ok && tb.Kind() == types.String {
			if xt.IsConst() {
				return Str{S: string(rune(xt.Int()))}
			}
			// symbolic rune: ASCII only
			m.check(c.ULT(xt, c.BV(xt.W, 0x80)), "unsupported", "string(rune) of non-ASCII symbolic value")
			return m.mkStr([]*sym.Term{c.Extract(xt, 7, 0)})
		}
		if tb, ok := tu.(*types.Basic); ok && tb.Kind() == types.UnsafePointer {
			m.unsupported("uintptr -> unsafe.Pointer")
		}
	}
	if fw, ok := isFloat(from); ok {
		f := x.(Float)
		_ = fw
		if w, ok := isFloat(to); ok {
			if w == f.W {
				return f
			}
			if v, ok := m.floatConst(f); ok {
				return m.mkFloat(w, v)
			}
			m.unsupported("symbolic float width conversion")
		}
		if tw, tsigned, ok := typeIntInfo(to); ok {
			if v, ok := m.floatConst(f); ok {
				if tsigned {
					return c.BV(tw, uint64(int64(v)))
				}
				return c.BV(tw, uint64(v))
			}
			m.unsupported("symbolic float->int conversion")
		}
	}
	// string <-> []byte / []rune
	if fb, ok := fu.(*types.Basic); ok && fb.Info()&types.IsString != 0 {
		s := x.(Str)
		if ts, ok := tu.(*types.Slice); ok {
			eb, _ := ts.Elem().Underlying().(*types.Basic)
			if eb != nil && eb.Kind() == types.Uint8 {
				bs := m.strBytes(s)
				arr := m.newArrayLoc(ts.Elem(), len(bs))
				for i, b := range bs {
					arr.Elems[i] = b
				}
				n := m.i64(int64(len(bs)))
				return Slice{Arr: arr, Off: m.i64(0), Len: n, Cap: n}
			}
			if eb != nil && eb.Kind() == types.Int32 && s.B == nil {
				rs := []rune(s.S)
				arr := m.newArrayLoc(ts.Elem(), len(rs))
				for i, r := range rs {
					arr.Elems[i] = c.BV(32, uint64(r))
				}
				n := m.i64(int64(len(rs)))
				return Slice{Arr: arr, Off: m.i64(0), Len: n, Cap: n}
			}
		}
		if _, ok := tu.(*types.Basic); ok {
			return x
		}
	}
	if fs, ok := fu.(*types.Slice); ok {
		if tb, ok := tu.(*types.Basic); ok && tb.Info()&types.IsString != 0 {
			s := x.(Slice)
			eb, _ := fs.Elem().Underlying().(*types.Basic)
			if eb != nil && eb.Kind() == types.Uint8 {
				return m.mkStr(m.sliceTerms(s))
			}
			if eb != nil && eb.Kind() == types.Int32 {
				ts := m.sliceTerms(s)
				rs := make([]rune, len(ts))
				for i, t := range ts {
					if !t.IsConst() {
						m.unsupported("string([]rune) of symbolic runes")
					}
					rs[i] = rune(t.Int())
				}
				return Str{S: string(rs)}
			}
		}
	}
	// pointer <-> unsafe.Pointer, and identical underlying conversions
	switch tu.(type) {
	case *types.Pointer, *types.Basic:
		if _, ok := x.(Ptr); ok {
			return x
		}
	}
	if types.Identical(fu, tu) {
		return x
	}
	m.unsupported("conversion %s -> %s", from, to)
	return nil
}

// sliceTerms returns the element terms of an integer slice (concretizing length and offset).
func (m *Machine) sliceTerms(s Slice) []*sym.Term {
	n := int(m.concretize(s.Len, 4096))
	if n == 0 {
		return nil
	}
	out := make([]*sym.Term, n)
	for i := 0; i < n; i++ {
		out[i] = m.sliceElem(s, m.i64(int64(i))).(*sym.Term)
	}
	return out
}

// sliceElem reads element i (64-bit term, in range) of slice s.
func (m *Machine) sliceElem(s Slice, i *sym.Term) Value {
	return m.load(m.elemPtr(s.Arr, m.ctx.Add(s.Off, i)))
}

// elemPtr returns a pointer to element idx of array loc (idx must be in range).
func (m *Machine) elemPtr(arr *Loc, idx *sym.Term) Ptr {
	if m.Cfg.ConcIndex && !idx.IsConst() && arr.arrayLen() <= 4096 && arr.FA == nil {
		// parse-loop strategy: positions become concrete (forked), contents stay symbolic
		idx = m.i64(m.concretize(idx, 4097))
	}
	if arr.Kids != nil {
		if idx.IsConst() {
			return Ptr{L: arr.Kids[idx.Int()], I: -1}
		}
		return Ptr{L: arr, I: -2, Idx: idx}
	}
	if idx.IsConst() {
		return Ptr{L: arr, I: int(idx.Int())}
	}
	return Ptr{L: arr, I: -2, Idx: idx}
}

func (m *Machine) boundsCheck(idx, n *sym.Term, what string) {
	c := m.ctx
	m.check(c.ULT(idx, n), "panic", "runtime error: index out of range ("+what+")")
}

func (m *Machine) toIdx(v Value, t types.Type) *sym.Term {
	x := v.(*sym.Term)
	_, signed, _ := typeIntInfo(t)
	if x.W < 64 {
		return m.ctx.Resize(x, 64, signed)
	}
	if !signed {
		// uint64 index: values >= 2^63 are out of range anyway; treat as-is (ULT check handles it)
		return x
	}
	return x
}

func (m *Machine) indexAddr(fr *Frame, ins *ssa.IndexAddr) Value {
	x := m.get(fr, ins.X)
	idx := m.toIdx(m.get(fr, ins.Index), ins.Index.Type())
	switch a := x.(type) {
	case Slice:
		m.boundsCheck(idx, a.Len, "slice")
		return m.elemPtr(a.Arr, m.ctx.Add(a.Off, idx))
	case Ptr:
		if a.L == nil {
			m.goPanic("runtime error: invalid memory address or nil pointer dereference")
		}
		m.boundsCheck(idx, m.i64(int64(a.L.arrayLen())), "array")
		return m.elemPtr(a.L, idx)
	}
	m.unsupported("IndexAddr on %T", x)
	return nil
}

func (m *Machine) index(fr *Frame, ins *ssa.Index) Value {
	x := m.get(fr, ins.X)
	idx := m.toIdx(m.get(fr, ins.Index), ins.Index.Type())
	switch a := x.(type) {
	case Array:
		m.boundsCheck(idx, m.i64(int64(len(a))), "array")
		if idx.IsConst() {
			return a[idx.Int()]
		}
		var acc Value = a[len(a)-1]
		for i := len(a) - 2; i >= 0; i-- {
			acc = m.iteValue(m.ctx.Eq(idx, m.i64(int64(i))), a[i], acc)
		}
		return acc
	case Str:
		return m.strIndex(a, idx)
	}
	m.unsupported("Index on %T", x)
	return nil
}

func (m *Machine) strIndex(a Str, idx *sym.Term) Value {
	n := a.Len()
	m.boundsCheck(idx, m.i64(int64(n)), "string")
	if idx.IsConst() {
		i := idx.Int()
		if a.B != nil {
			return a.B[i]
		}
		return m.ctx.BV(8, uint64(a.S[i]))
	}
	bs := m.strBytes(a)
	acc := bs[n-1]
	for i := n - 2; i >= 0; i-- {
		acc = m.ctx.Ite(m.ctx.Eq(idx, m.i64(int64(i))), bs[i], acc)
	}
	return acc
}

func (m *Machine) lookup(fr *Frame, ins *ssa.Lookup) Value {
	x := m.get(fr, ins.X)
	switch a := x.(type) {
	case Str:
		return m.strIndex(a, m.toIdx(m.get(fr, ins.Index), ins.Index.Type()))
	case *MapObj:
		vt := ins.X.Type().Underlying().(*types.Map).Elem()
		v, ok := m.mapLookup(a, m.get(fr, ins.Index))
		if !ok {
			v = m.zero(vt)
		}
		if ins.CommaOk {
			return Tuple{v, m.ctx.Bool(ok)}
		}
		return v
	}
	m.unsupported("Lookup on %T", x)
	return nil
}

func (m *Machine) mapFind(mo *MapObj, k Value) int {
	if mo == nil {
		return -1
	}
	for i, e := range mo.Entries {
		eq := m.valueEq(e.K, k)
		if m.branch(eq) {
			return i
		}
	}
	return -1
}

func (m *Machine) mapLookup(mo *MapObj, k Value) (Value, bool) {
	i := m.mapFind(mo, k)
	if i < 0 {
		return nil, false
	}
	return mo.Entries[i].V, true
}

func (m *Machine) mapUpdate(mo *MapObj, k, v Value) {
	i := m.mapFind(mo, k)
	if i >= 0 {
		mo.Entries[i].V = v
		return
	}
	mo.Entries = append(mo.Entries, MapEntry{k, v})
}

func (m *Machine) mapDelete(mo *MapObj, k Value) {
	i := m.mapFind(mo, k)
	if i >= 0 {
		mo.Entries = append(mo.Entries[:i:i], mo.Entries[i+1:]...)
	}
}

func (m *Machine) rangeStart(x Value) Value {
	switch a := x.(type) {
	case *MapObj:
		it := &RangeIter{M: a}
		if a != nil {
			it.Keys = append(it.Keys, a.Entries...)
			if m.mapOrderNondet && len(it.Keys) > 1 {
				// explore all iteration orders
				keys := it.Keys
				perm := make([]MapEntry, 0, len(keys))
				rest := append([]MapEntry{}, keys...)
				for len(rest) > 0 {
					i := 0
					if len(rest) > 1 {
						i = m.choice(len(rest))
					}
					perm = append(perm, rest[i])
					rest = append(rest[:i:i], rest[i+1:]...)
				}
				it.Keys = perm
			}
		}
		return it
	case Str:
		return &RangeIter{S: a, IsStr: true}
	}
	m.unsupported("range over %T", x)
	return nil
}

func (m *Machine) rangeNext(ins *ssa.Next, it *RangeIter) Value {
	c := m.ctx
	if it.IsStr {
		n := it.S.Len()
		if it.Pos >= n {
			return Tuple{c.False, m.i64(0), c.BV(32, 0)}
		}
		if it.S.B == nil {
			// concrete: decode utf8
			for i, r := range it.S.S[it.Pos:] {
				_ = i
				pos := it.Pos
				it.Pos += len(string(r))
				if r == 0xFFFD {
					it.Pos = pos + 1
				}
				return Tuple{c.True, m.i64(int64(pos)), c.BV(32, uint64(r))}
			}
		}
		b := m.strBytes(it.S)[it.Pos]
		m.check(c.ULT(b, c.BV(8, 0x80)), "unsupported", "range over string with non-ASCII symbolic byte")
		pos := it.Pos
		it.Pos++
		return Tuple{c.True, m.i64(int64(pos)), c.ZExt(b, 32)}
	}
	// map: skip entries deleted since the range started
	for it.Pos < len(it.Keys) {
		e := it.Keys[it.Pos]
		it.Pos++
		// entry must still be present (by identity of key value when concrete)
		idx := -1
		for i, cur := range it.M.Entries {
			if m.sameKey(cur.K, e.K) {
				idx = i
				break
			}
		}
		if idx < 0 {
			continue
		}
		return Tuple{c.True, e.K, it.M.Entries[idx].V}
	}
	mt := it.M
	var kz, vz Value
	if mt != nil {
		kz, vz = m.zero(mt.KT), m.zero(mt.VT)
	}
	return Tuple{c.False, kz, vz}
}

func (m *Machine) sameKey(a, b Value) bool {
	eq := m.valueEq(a, b)
	if eq.IsConst() {
		return eq.IsTrue()
	}
	return m.branch(eq)
}

func (m *Machine) makeSlice(elem types.Type, ln, cp *sym.Term) Value {
	c := m.ctx
	m.check(c.SLE(m.i64(0), ln), "panic", "runtime error: makeslice: len out of range")
	m.check(c.SLE(ln, cp), "panic", "runtime error: makeslice: cap out of range")
	var n int64
	if cp.IsConst() {
		n = cp.Int()
		if n > 1<<22 {
			m.Stats.OverLimit++
			m.endPath("allocation over limit")
		}
	} else {
		// symbolic size: restrict to the allocation limit (counted, not judged)
		lim := m.i64(int64(m.Cfg.AllocLimit))
		if m.feasible(c.SLT(lim, cp)) {
			m.Stats.OverLimit++
		}
		m.assume(c.SLE(cp, lim))
		if isAggregate(elem) || ln != cp {
			n = m.concretize(cp, m.Cfg.AllocLimit+1)
			cp = m.i64(n)
			if ln != cp && !ln.IsConst() {
				ln = m.i64(m.concretize(ln, m.Cfg.AllocLimit+1))
			}
		} else {
			// allocate the maximum feasible size, keep the length symbolic
			lo, hi := int64(0), int64(m.Cfg.AllocLimit)
			for lo < hi {
				mid := (lo + hi + 1) / 2
				if m.feasible(c.SLE(m.i64(mid), cp)) {
					lo = mid
				} else {
					hi = mid - 1
				}
			}
			n = lo
		}
	}
	arr := m.newArrayLoc(elem, int(n))
	return Slice{Arr: arr, Off: m.i64(0), Len: ln, Cap: cp}
}

func (m *Machine) sliceOp(fr *Frame, ins *ssa.Slice) Value {
	c := m.ctx
	x := m.get(fr, ins.X)
	var lo, hi, mx *sym.Term
	if ins.Low != nil {
		lo = m.toIdx(m.get(fr, ins.Low), ins.Low.Type())
	} else {
		lo = m.i64(0)
	}
	if ins.High != nil {
		hi = m.toIdx(m.get(fr, ins.High), ins.High.Type())
	}
	if ins.Max != nil {
		mx = m.toIdx(m.get(fr, ins.Max), ins.Max.Type())
	}
	switch a := x.(type) {
	case Str:
		n := m.i64(int64(a.Len()))
		if hi == nil {
			hi = n
		}
		m.check(c.ULE(hi, n), "panic", "runtime error: slice bounds out of range (string high)")
		m.check(c.ULE(lo, hi), "panic", "runtime error: slice bounds out of range (string low)")
		l := m.concretize(lo, 4096)
		h := m.concretize(hi, 4096)
		if a.B == nil {
			return Str{S: a.S[l:h]}
		}
		return m.mkStr(a.B[l:h])
	case Slice:
		if hi == nil {
			hi = a.Len
		}
		if mx == nil {
			mx = a.Cap
		} else {
			m.check(c.ULE(mx, a.Cap), "panic", "runtime error: slice bounds out of range (max)")
		}
		m.check(c.ULE(hi, mx), "panic", "runtime error: slice bounds out of range (high)")
		m.check(c.ULE(lo, hi), "panic", "runtime error: slice bounds out of range (low)")
		if a.Arr == nil {
			return Slice{Off: m.i64(0), Len: m.i64(0), Cap: m.i64(0)}
		}
		return Slice{Arr: a.Arr, Off: c.Add(a.Off, lo), Len: c.Sub(hi, lo), Cap: c.Sub(mx, lo)}
	case Ptr:
		if a.L == nil {
			m.goPanic("runtime error: slice of nil array pointer")
		}
		n := m.i64(int64(a.L.arrayLen()))
		if hi == nil {
			hi = n
		}
		if mx == nil {
			mx = n
		} else {
			m.check(c.ULE(mx, n), "panic", "runtime error: slice bounds out of range (max)")
		}
		m.check(c.ULE(hi, mx), "panic", "runtime error: slice bounds out of range (high)")
		m.check(c.ULE(lo, hi), "panic", "runtime error: slice bounds out of range (low)")
		return Slice{Arr: a.L, Off: lo, Len: c.Sub(hi, lo), Cap: c.Sub(mx, lo)}
	}
	m.unsupported("Slice on %T", x)
	return nil
}

func (m *Machine) typeAssert(ins *ssa.TypeAssert, x Iface) Value {
	ok := false
	var res Value
	if it, isIface := ins.AssertedType.Underlying().(*types.Interface); isIface {
		if x.T != nil && types.Implements(x.T, it) {
			ok = true
			res = x
		} else {
			res = Iface{}
		}
	} else {
		if x.T != nil && types.Identical(x.T, ins.AssertedType) {
			ok = true
			res = x.V
		} else {
			res = m.zero(ins.AssertedType)
		}
	}
	if ins.CommaOk {
		return Tuple{res, m.ctx.Bool(ok)}
	}
	if !ok {
		m.goPanic(fmt.Sprintf("interface conversion: %v is not %s", x.T, ins.AssertedType))
	}
	return res
}

// global returns the Loc of a package-level variable, initialising its package lazily.
func (m *Machine) global(g *ssa.Global) *Loc {
	if l, ok := m.globals[g]; ok {
		return l
	}
	m.initPackage(g.Pkg)
	if l, ok := m.globals[g]; ok {
		return l
	}
	l := m.newLoc(g.Type().Underlying().(*types.Pointer).Elem())
	l.Name = g.String()
	m.globals[g] = l
	return l
}

// initPackage runs the synthesized package initializer (best effort for std packages).
func (m *Machine) initPackage(p *ssa.Package) {
	if p == nil || m.pkgInit[p] != 0 {
		return
	}
	m.pkgInit[p] = 1
	// allocate all globals first
	for _, mem := range p.Members {
		if g, ok := mem.(*ssa.Global); ok {
			if _, ok := m.globals[g]; !ok {
				l := m.newLoc(g.Type().Underlying().(*types.Pointer).Elem())
				l.Name = g.String()
				m.globals[g] = l
			}
		}
	}
	initFn := p.Func("init")
	if initFn == nil || initFn.Blocks == nil {
		return
	}
	m.runInit(p, initFn)
	m.pkgInit[p] = 2
}
