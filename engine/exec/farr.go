package exec

import (
	"go/types"

	"gosym/sym"
)

// FArr is a functional byte array (placeholder; see farr implementation).
type FArr struct {
	N int
}

func (f *FArr) Read(m *Machine, idx *sym.Term) Value {
	m.unsupported("functional array read")
	return nil
}
func (f *FArr) Write(m *Machine, idx *sym.Term, v *sym.Term) {
	m.unsupported("functional array write")
}
func (m *Machine) faAppend(elem types.Type, s, t Slice) Value {
	m.unsupported("functional array append")
	return nil
}
func (m *Machine) faCopy(d, s Slice) Value {
	m.unsupported("functional array copy")
	return nil
}
