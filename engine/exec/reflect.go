package exec

import (
	"go/types"

	"gosym/sym"
)

// A minimal model of package reflect: exactly what sam.NewAux / samAux.String
// use (ValueOf, Type, Kind, Len, Index, Interface, Type.Elem, Type.Kind).

type ReflVal struct{ I Iface }
type ReflType struct{ T types.Type }

func reflectKind(t types.Type) int64 {
	switch u := t.Underlying().(type) {
	case *types.Basic:
		switch u.Kind() {
		case types.Bool:
			return 1
		case types.Int:
			return 2
		case types.Int8:
			return 3
		case types.Int16:
			return 4
		case types.Int32:
			return 5
		case types.Int64:
			return 6
		case types.Uint:
			return 7
		case types.Uint8:
			return 8
		case types.Uint16:
			return 9
		case types.Uint32:
			return 10
		case types.Uint64:
			return 11
		case types.Uintptr:
			return 12
		case types.Float32:
			return 13
		case types.Float64:
			return 14
		case types.String:
			return 24
		case types.UnsafePointer:
			return 26
		}
	case *types.Array:
		return 17
	case *types.Chan:
		return 18
	case *types.Signature:
		return 19
	case *types.Interface:
		return 20
	case *types.Map:
		return 21
	case *types.Pointer:
		return 22
	case *types.Slice:
		return 23
	case *types.Struct:
		return 25
	}
	return 0
}

func registerReflect(m *Machine) {
	m.natives["reflect.ValueOf"] = func(m *Machine, a []Value) Value { return ReflVal{a[0].(Iface)} }
	m.natives["reflect.TypeOf"] = func(m *Machine, a []Value) Value {
		i := a[0].(Iface)
		return Iface{T: reflTypeMarker, V: ReflType{i.T}}
	}
	m.natives["(reflect.Value).Type"] = func(m *Machine, a []Value) Value {
		return Iface{T: reflTypeMarker, V: ReflType{a[0].(ReflVal).I.T}}
	}
	m.natives["(reflect.Value).Kind"] = func(m *Machine, a []Value) Value {
		return m.ctx.BV(64, uint64(reflectKind(a[0].(ReflVal).I.T)))
	}
	m.natives["(reflect.Value).Len"] = func(m *Machine, a []Value) Value {
		switch v := a[0].(ReflVal).I.V.(type) {
		case Slice:
			return v.Len
		case Array:
			return m.i64(int64(len(v)))
		case Str:
			return m.i64(int64(v.Len()))
		}
		m.unsupported("reflect.Value.Len on %T", a[0].(ReflVal).I.V)
		return nil
	}
	m.natives["(reflect.Value).Index"] = func(m *Machine, a []Value) Value {
		rv := a[0].(ReflVal)
		idx := a[1].(*sym.Term)
		switch v := rv.I.V.(type) {
		case Slice:
			m.boundsCheck(idx, v.Len, "reflect index")
			et := rv.I.T.Underlying().(*types.Slice).Elem()
			return ReflVal{Iface{T: et, V: m.sliceElem(v, idx)}}
		case Array:
			i := m.concretize(idx, 4096)
			et := rv.I.T.Underlying().(*types.Array).Elem()
			return ReflVal{Iface{T: et, V: v[i]}}
		}
		m.unsupported("reflect.Value.Index on %T", rv.I.V)
		return nil
	}
	m.natives["(reflect.Value).Interface"] = func(m *Machine, a []Value) Value { return a[0].(ReflVal).I }
}

// reflTypeMarker is the dynamic type given to reflect.Type interface values.
var reflTypeMarker types.Type = types.NewNamed(types.NewTypeName(0, nil, "reflect.rtype(model)", nil), types.NewStruct(nil, nil), nil)

// reflTypeMethod dispatches reflect.Type methods on a modelled type.
func (m *Machine) reflTypeMethod(rt ReflType, name string, args []Value) Value {
	switch name {
	case "Kind":
		return m.ctx.BV(64, uint64(reflectKind(rt.T)))
	case "Elem":
		switch u := rt.T.Underlying().(type) {
		case *types.Slice:
			return Iface{T: reflTypeMarker, V: ReflType{u.Elem()}}
		case *types.Array:
			return Iface{T: reflTypeMarker, V: ReflType{u.Elem()}}
		case *types.Pointer:
			return Iface{T: reflTypeMarker, V: ReflType{u.Elem()}}
		}
	case "String", "Name":
		return Str{S: rt.T.String()}
	}
	m.unsupported("reflect.Type.%s", name)
	return nil
}
