package exec

import (
	"fmt"
	"go/types"
	"strings"

	"gosym/sym"

	"golang.org/x/tools/go/ssa"
)

const vrtPkg = "github.com/biogo/hts/internal/vrt."

func (m *Machine) strArg(v Value) string {
	s, ok := v.(Str)
	if !ok || s.B != nil {
		m.unsupported("expected constant string argument")
	}
	return s.S
}

func (m *Machine) intArg(v Value) int {
	t := v.(*sym.Term)
	if !t.IsConst() {
		m.unsupported("expected constant int argument, got %s", t)
	}
	return int(t.Int())
}

func registerNatives(m *Machine) {
	registerSync(m)
	registerVrt(m)
	registerBits(m)
	registerBytes(m)
	registerMisc(m)
	registerFmt(m)
	registerBinary(m)
	registerReflect(m)
	for _, f := range extraNatives {
		f(m)
	}
}

// extraNatives lets additional files register models without touching this one.
var extraNatives []func(*Machine)

func registerVrt(m *Machine) {
	mk := func(kind string, w int) nativeFn {
		return func(m *Machine, args []Value) Value {
			return m.newInput(m.strArg(args[0]), kind, w)
		}
	}
	for _, k := range []struct {
		n string
		w int
	}{{"Int8", 8}, {"Int16", 16}, {"Int32", 32}, {"Int64", 64}, {"Int", 64},
		{"Uint8", 8}, {"Uint16", 16}, {"Uint32", 32}, {"Uint64", 64}, {"Uint", 64}, {"Byte", 8}} {
		kind := strings.ToLower(k.n)
		if kind == "byte" {
			kind = "uint8"
		}
		m.natives[vrtPkg+k.n] = mk(kind, k.w)
	}
	m.natives[vrtPkg+"Bool"] = func(m *Machine, args []Value) Value {
		return m.newInput(m.strArg(args[0]), "bool", 0)
	}
	m.natives[vrtPkg+"Bytes"] = func(m *Machine, args []Value) Value {
		name := m.strArg(args[0])
		n := m.intArg(args[1])
		arr := m.newArrayLoc(types.Typ[types.Uint8], n)
		in := Input{Name: name, Kind: "bytes", Terms: []*sym.Term{}}
		if m.inputN == nil {
			m.inputN = map[string]int{}
		}
		k := m.inputN[name]
		m.inputN[name] = k + 1
		if k > 0 {
			in.Name = fmt.Sprintf("%s#%d", name, k)
		}
		for i := 0; i < n; i++ {
			t := m.ctx.Var(fmt.Sprintf("%s[%d]", in.Name, i), 8)
			arr.Elems[i] = t
			in.Terms = append(in.Terms, t)
		}
		m.inputs = append(m.inputs, in)
		ln := m.i64(int64(n))
		return Slice{Arr: arr, Off: m.i64(0), Len: ln, Cap: ln}
	}
	m.natives[vrtPkg+"Choice"] = func(m *Machine, args []Value) Value {
		name := m.strArg(args[0])
		k := m.intArg(args[1])
		var v int
		if fv, ok := m.Cfg.Params["fix_"+name]; ok && fv < k {
			v = fv // the driver splits the work on this choice
		} else {
			v = m.choice(k)
		}
		m.inputs = append(m.inputs, Input{Name: name, Kind: "choice", Val: int64(v)})
		return m.i64(int64(v))
	}
	m.natives[vrtPkg+"Assume"] = func(m *Machine, args []Value) Value {
		m.assume(args[0].(*sym.Term))
		return nil
	}
	m.natives[vrtPkg+"Assert"] = func(m *Machine, args []Value) Value {
		m.check(args[0].(*sym.Term), "assert", m.strArg(args[1]))
		return nil
	}
	m.natives[vrtPkg+"Reach"] = func(m *Machine, args []Value) Value {
		m.Reached[m.strArg(args[0])]++
		m.pathReached = append(m.pathReached, m.strArg(args[0]))
		return nil
	}
	m.natives[vrtPkg+"Param"] = func(m *Machine, args []Value) Value {
		name := m.strArg(args[0])
		def := m.intArg(args[1])
		if v, ok := m.Cfg.Params[name]; ok {
			def = v
		}
		return m.i64(int64(def))
	}
	m.natives[vrtPkg+"Concrete"] = func(m *Machine, args []Value) Value {
		return m.i64(m.concretize(args[0].(*sym.Term), 1<<12))
	}
	m.natives[vrtPkg+"MapOrderNondet"] = func(m *Machine, args []Value) Value {
		m.mapOrderNondet = m.ctxBool(args[0])
		return nil
	}
	m.natives[vrtPkg+"Jitter"] = func(m *Machine, args []Value) Value { return nil }
	m.natives[vrtPkg+"SetJitter"] = func(m *Machine, args []Value) Value { return nil }
	m.natives[vrtPkg+"LiveTasks"] = func(m *Machine, args []Value) Value {
		return m.i64(int64(m.liveTasks()))
	}
	m.natives[vrtPkg+"Or"] = func(m *Machine, args []Value) Value {
		return m.ctx.Or(args[0].(*sym.Term), args[1].(*sym.Term))
	}
	m.natives[vrtPkg+"And"] = func(m *Machine, args []Value) Value {
		return m.ctx.And(args[0].(*sym.Term), args[1].(*sym.Term))
	}
	m.natives[vrtPkg+"Implies"] = func(m *Machine, args []Value) Value {
		return m.ctx.Implies(args[0].(*sym.Term), args[1].(*sym.Term))
	}
	m.natives[vrtPkg+"Ite"] = func(m *Machine, args []Value) Value {
		return m.ctx.Ite(args[0].(*sym.Term), args[1].(*sym.Term), args[2].(*sym.Term))
	}
	m.natives[vrtPkg+"LenientFmt"] = func(m *Machine, args []Value) Value {
		m.lenientFmt = m.ctxBool(args[0])
		return nil
	}
	m.natives[vrtPkg+"Symbolic"] = func(m *Machine, args []Value) Value { return m.ctx.True }
	m.natives[vrtPkg+"Done"] = func(m *Machine, args []Value) Value { return nil }
	m.natives[vrtPkg+"Note"] = func(m *Machine, args []Value) Value { return nil }
}

func (m *Machine) ctxBool(v Value) bool {
	t := v.(*sym.Term)
	if !t.IsConst() {
		m.unsupported("expected constant bool")
	}
	return t.Val != 0
}

// bitLen returns Len(x) (position of highest set bit + 1) as a term of width rw.
func (m *Machine) bitLen(x *sym.Term, rw int) *sym.Term {
	c := m.ctx
	acc := c.BV(rw, 0)
	for i := 0; i < x.W; i++ {
		bit := c.Eq(c.Extract(x, i, i), c.BV(1, 1))
		acc = c.Ite(bit, c.BV(rw, uint64(i+1)), acc)
	}
	return acc
}

func (m *Machine) trailingZeros(x *sym.Term, rw int) *sym.Term {
	c := m.ctx
	acc := c.BV(rw, uint64(x.W))
	for i := x.W - 1; i >= 0; i-- {
		bit := c.Eq(c.Extract(x, i, i), c.BV(1, 1))
		acc = c.Ite(bit, c.BV(rw, uint64(i)), acc)
	}
	return acc
}

func registerBits(m *Machine) {
	for _, w := range []int{8, 16, 32, 64, 0} {
		w := w
		suffix := fmt.Sprint(w)
		if w == 0 {
			suffix = ""
		}
		width := func(x *sym.Term) int {
			if w == 0 {
				return 64
			}
			return w
		}
		m.natives["math/bits.Len"+suffix] = func(m *Machine, a []Value) Value {
			return m.bitLen(a[0].(*sym.Term), 64)
		}
		m.natives["math/bits.LeadingZeros"+suffix] = func(m *Machine, a []Value) Value {
			x := a[0].(*sym.Term)
			return m.ctx.Sub(m.i64(int64(width(x))), m.bitLen(x, 64))
		}
		m.natives["math/bits.TrailingZeros"+suffix] = func(m *Machine, a []Value) Value {
			return m.trailingZeros(a[0].(*sym.Term), 64)
		}
		m.natives["math/bits.OnesCount"+suffix] = func(m *Machine, a []Value) Value {
			x := a[0].(*sym.Term)
			acc := m.i64(0)
			for i := 0; i < x.W; i++ {
				acc = m.ctx.Add(acc, m.ctx.ZExt(m.ctx.Extract(x, i, i), 64))
			}
			return acc
		}
		m.natives["math/bits.ReverseBytes"+suffix] = func(m *Machine, a []Value) Value {
			x := a[0].(*sym.Term)
			var acc *sym.Term
			for i := 0; i < x.W/8; i++ {
				b := m.ctx.Extract(x, i*8+7, i*8)
				if acc == nil {
					acc = b
				} else {
					acc = m.ctx.Concat(acc, b)
				}
			}
			return acc
		}
		m.natives["math/bits.RotateLeft"+suffix] = func(m *Machine, a []Value) Value {
			x := a[0].(*sym.Term)
			k := m.intArg(a[1])
			n := x.W
			s := uint64(k) & uint64(n-1)
			c := m.ctx
			return c.BOr(c.Shl(x, c.BV(n, s)), c.LShr(x, c.BV(n, uint64(n)-s)))
		}
	}
}

// byteSliceTerms returns the bytes of a []byte or string argument.
func (m *Machine) bytesOf(v Value) []*sym.Term {
	switch x := v.(type) {
	case Slice:
		return m.sliceTerms(x)
	case Str:
		return m.strBytes(x)
	}
	m.unsupported("bytesOf %T", v)
	return nil
}

func (m *Machine) indexByteTerm(bs []*sym.Term, c *sym.Term) *sym.Term {
	acc := m.i64(-1)
	for i := len(bs) - 1; i >= 0; i-- {
		acc = m.ctx.Ite(m.ctx.Eq(bs[i], c), m.i64(int64(i)), acc)
	}
	return acc
}

func (m *Machine) indexTerm(bs, sep []*sym.Term) *sym.Term {
	acc := m.i64(-1)
	for i := len(bs) - len(sep); i >= 0; i-- {
		match := m.ctx.True
		for j := range sep {
			match = m.ctx.And(match, m.ctx.Eq(bs[i+j], sep[j]))
		}
		acc = m.ctx.Ite(match, m.i64(int64(i)), acc)
	}
	return acc
}

func (m *Machine) bytesEqTerm(a, b []*sym.Term) *sym.Term {
	if len(a) != len(b) {
		return m.ctx.False
	}
	r := m.ctx.True
	for i := range a {
		r = m.ctx.And(r, m.ctx.Eq(a[i], b[i]))
	}
	return r
}

func registerBytes(m *Machine) {
	ib := func(m *Machine, a []Value) Value {
		return m.indexByteTerm(m.bytesOf(a[0]), a[1].(*sym.Term))
	}
	m.natives["internal/bytealg.IndexByte"] = ib
	m.natives["internal/bytealg.IndexByteString"] = ib
	m.natives["bytes.IndexByte"] = ib
	m.natives["strings.IndexByte"] = ib
	idx := func(m *Machine, a []Value) Value {
		return m.indexTerm(m.bytesOf(a[0]), m.bytesOf(a[1]))
	}
	m.natives["bytes.Index"] = idx
	m.natives["strings.Index"] = idx
	m.natives["internal/bytealg.Index"] = idx
	m.natives["internal/bytealg.IndexString"] = idx
	m.natives["bytes.Equal"] = func(m *Machine, a []Value) Value {
		x, y := a[0].(Slice), a[1].(Slice)
		// lengths may be symbolic: compare lengths first
		if !m.branch(m.ctx.Eq(x.Len, y.Len)) {
			return m.ctx.False
		}
		return m.bytesEqTerm(m.sliceTerms(x), m.sliceTerms(y))
	}
	m.natives["internal/bytealg.Equal"] = m.natives["bytes.Equal"]
	m.natives["internal/bytealg.Count"] = func(m *Machine, a []Value) Value {
		bs := m.bytesOf(a[0])
		acc := m.i64(0)
		for _, b := range bs {
			acc = m.ctx.Add(acc, m.ctx.Ite(m.ctx.Eq(b, a[1].(*sym.Term)), m.i64(1), m.i64(0)))
		}
		return acc
	}
	m.natives["internal/bytealg.CountString"] = m.natives["internal/bytealg.Count"]
	cmp := func(m *Machine, a []Value) Value {
		x, y := m.bytesOf(a[0]), m.bytesOf(a[1])
		n := len(x)
		if len(y) < n {
			n = len(y)
		}
		var tail *sym.Term
		switch {
		case len(x) < len(y):
			tail = m.i64(-1)
		case len(x) > len(y):
			tail = m.i64(1)
		default:
			tail = m.i64(0)
		}
		r := tail
		for i := n - 1; i >= 0; i-- {
			r = m.ctx.Ite(m.ctx.Eq(x[i], y[i]), r, m.ctx.Ite(m.ctx.ULT(x[i], y[i]), m.i64(-1), m.i64(1)))
		}
		return r
	}
	m.natives["internal/bytealg.Compare"] = cmp
	m.natives["bytes.Compare"] = cmp
	m.natives["strings.Compare"] = cmp
	m.natives["internal/bytealg.CompareString"] = cmp
	m.natives["internal/bytealg.MakeNoZero"] = func(m *Machine, a []Value) Value {
		return m.makeSlice(types.Typ[types.Uint8], a[0].(*sym.Term), a[0].(*sym.Term))
	}
	m.natives["internal/stringslite.Index"] = idx
	m.natives["internal/stringslite.IndexByte"] = ib
}

func registerMisc(m *Machine) {
	nop := func(m *Machine, a []Value) Value { return nil }
	m.natives["runtime.KeepAlive"] = nop
	m.natives["runtime.SetFinalizer"] = nop
	m.natives["internal/race.Acquire"] = nop
	m.natives["internal/race.Release"] = nop
	m.natives["internal/race.ReleaseMerge"] = nop
	m.natives["internal/race.Enable"] = nop
	m.natives["internal/race.Disable"] = nop
	m.natives["internal/race.ReadRange"] = nop
	m.natives["internal/race.WriteRange"] = nop
	m.natives["math.Float32bits"] = func(m *Machine, a []Value) Value { return a[0].(Float).Bits }
	m.natives["math.Float64bits"] = func(m *Machine, a []Value) Value { return a[0].(Float).Bits }
	m.natives["math.Float32frombits"] = func(m *Machine, a []Value) Value { return Float{32, a[0].(*sym.Term)} }
	m.natives["math.Float64frombits"] = func(m *Machine, a []Value) Value { return Float{64, a[0].(*sym.Term)} }
	m.natives["errors.Is"] = func(m *Machine, a []Value) Value {
		// identity comparison only (no Unwrap chains through reflection)
		x, y := a[0].(Iface), a[1].(Iface)
		for depth := 0; depth < 8; depth++ {
			eq := m.valueEq(x, y)
			if m.branch(eq) {
				return m.ctx.True
			}
			if x.T == nil {
				return m.ctx.False
			}
			un := m.lookupMethod(x.T, "Unwrap")
			if un == nil {
				return m.ctx.False
			}
			r := m.callFn(un, []Value{x.V}, nil)
			nx, ok := r.(Iface)
			if !ok {
				return m.ctx.False
			}
			x = nx
		}
		return m.ctx.False
	}
}

// runInit executes a package initializer, skipping calls into other packages'
// initializers (those are run lazily) and tolerating unsupported instructions.
func (m *Machine) runInit(p *ssa.Package, fn *ssa.Function) {
	saveTask := m.task
	if m.task == nil {
		m.task = &Task{name: "init"}
	}
	m.initMode++
	saveSteps := m.steps
	defer func() {
		m.initMode--
		m.steps = saveSteps
		m.task = saveTask
	}()
	fi := m.info(fn)
	fr := &Frame{fn: fn, info: fi, env: make([]Value, fi.n)}
	m.task.stack = append(m.task.stack, fr)
	defer func() { m.task.stack = m.task.stack[:len(m.task.stack)-1] }()
	// The synthesized init is: if guard {return}; guard=true; dep inits; var inits; init#N calls.
	// Execute blocks in order following jumps; branch on the guard is concrete.
	block := fn.Blocks[0]
	var prev *ssa.BasicBlock
	for block != nil {
		var next *ssa.BasicBlock
		for _, in := range block.Instrs {
			fr.cur = in
			switch ins := in.(type) {
			case *ssa.Phi:
				for i, pb := range block.Preds {
					if pb == prev {
						m.set(fr, ins, m.get(fr, ins.Edges[i]))
					}
				}
			case *ssa.If:
				c, ok := m.get(fr, ins.Cond).(*sym.Term)
				if ok && c.IsConst() && c.Val != 0 {
					next = block.Succs[0]
				} else {
					next = block.Succs[1]
				}
			case *ssa.Jump:
				next = block.Succs[0]
			case *ssa.Return:
				return
			case *ssa.Call:
				if callee := ins.Call.StaticCallee(); callee != nil && callee.Name() == "init" && callee.Pkg != p {
					continue
				}
				m.tryExec(fr, in)
			default:
				m.tryExec(fr, in)
			}
		}
		prev = block
		block = next
	}
}

// Poison marks a value whose computation was not supported during package init.
type Poison struct{ Why string }

func (m *Machine) tryExec(fr *Frame, in ssa.Instruction) {
	defer func() {
		if r := recover(); r != nil {
			switch e := r.(type) {
			case *unsupportedErr:
				if v, ok := in.(ssa.Value); ok {
					m.set(fr, v, Poison{e.msg})
				}
			case *pathEnd:
				panic(r)
			default:
				if v, ok := in.(ssa.Value); ok {
					m.set(fr, v, Poison{fmt.Sprint(r)})
				}
			}
		}
	}()
	m.exec(fr, in)
}
