package exec

import (
	"go/types"
	"strings"

	"gosym/sym"

	"golang.org/x/tools/go/ssa"
)

// ---- encoding/binary.Read / Write by static type ----

func (m *Machine) binSize(t types.Type) int {
	switch u := t.Underlying().(type) {
	case *types.Basic:
		if w, _, ok := intWidth(u); ok {
			return w / 8
		}
		switch u.Kind() {
		case types.Bool:
			return 1
		case types.Float32:
			return 4
		case types.Float64:
			return 8
		}
	case *types.Array:
		return int(u.Len()) * m.binSize(u.Elem())
	case *types.Struct:
		n := 0
		for i := 0; i < u.NumFields(); i++ {
			n += m.binSize(u.Field(i).Type())
		}
		return n
	}
	m.unsupported("binary: size of %s", t)
	return 0
}

func (m *Machine) binEncode(v Value, t types.Type, big bool, out *[]*sym.Term) {
	c := m.ctx
	putInt := func(x *sym.Term) {
		n := x.W / 8
		for i := 0; i < n; i++ {
			k := i
			if big {
				k = n - 1 - i
			}
			*out = append(*out, c.Extract(x, k*8+7, k*8))
		}
	}
	switch u := t.Underlying().(type) {
	case *types.Basic:
		switch x := v.(type) {
		case *sym.Term:
			if x.W == 0 {
				*out = append(*out, c.Ite(x, c.BV(8, 1), c.BV(8, 0)))
				return
			}
			putInt(x)
			return
		case Float:
			putInt(x.Bits)
			return
		}
	case *types.Array:
		a := v.(Array)
		for _, e := range a {
			m.binEncode(e, u.Elem(), big, out)
		}
		return
	case *types.Struct:
		s := v.(Struct)
		for i := 0; i < u.NumFields(); i++ {
			m.binEncode(s[i], u.Field(i).Type(), big, out)
		}
		return
	}
	m.unsupported("binary: encode %s (%T)", t, v)
}

func (m *Machine) binDecode(t types.Type, big bool, in []*sym.Term, pos *int) Value {
	c := m.ctx
	getInt := func(w int) *sym.Term {
		n := w / 8
		var acc *sym.Term
		for i := 0; i < n; i++ {
			k := n - 1 - i // most significant first for concat
			idx := k
			if big {
				idx = n - 1 - k
			}
			b := in[*pos+idx]
			if acc == nil {
				acc = b
			} else {
				acc = c.Concat(acc, b)
			}
		}
		*pos += n
		return acc
	}
	switch u := t.Underlying().(type) {
	case *types.Basic:
		if w, _, ok := intWidth(u); ok {
			return getInt(w)
		}
		switch u.Kind() {
		case types.Bool:
			b := in[*pos]
			*pos++
			return c.Not(c.Eq(b, c.BV(8, 0)))
		case types.Float32:
			return Float{32, getInt(32)}
		case types.Float64:
			return Float{64, getInt(64)}
		}
	case *types.Array:
		n := int(u.Len())
		a := make(Array, n)
		for i := range a {
			a[i] = m.binDecode(u.Elem(), big, in, pos)
		}
		return a
	case *types.Struct:
		s := make(Struct, u.NumFields())
		for i := range s {
			s[i] = m.binDecode(u.Field(i).Type(), big, in, pos)
		}
		return s
	}
	m.unsupported("binary: decode %s", t)
	return nil
}

func isBigEndian(order Value) bool {
	if i, ok := order.(Iface); ok && i.T != nil {
		return strings.Contains(i.T.String(), "bigEndian")
	}
	return false
}

func (m *Machine) byteSliceFromTerms(ts []*sym.Term) Slice {
	arr := m.newArrayLoc(types.Typ[types.Uint8], len(ts))
	for i, t := range ts {
		arr.Elems[i] = t
	}
	n := m.i64(int64(len(ts)))
	return Slice{Arr: arr, Off: m.i64(0), Len: n, Cap: n}
}

func (m *Machine) invokeMethod(recv Iface, name string, args ...Value) Value {
	if recv.T == nil {
		m.goPanic("nil interface method call " + name)
	}
	fn := m.lookupMethod(recv.T, name)
	if fn == nil {
		m.unsupported("method %s not found on %s", name, recv.T)
	}
	return m.callFn(fn, append([]Value{recv.V}, args...), nil)
}

func (m *Machine) stdFunc(pkg, name string) *ssa.Function {
	p := m.prog.ImportedPackage(pkg)
	if p == nil {
		m.unsupported("package %s not loaded", pkg)
	}
	f := p.Func(name)
	if f == nil {
		m.unsupported("function %s.%s not found", pkg, name)
	}
	return f
}

func registerBinary(m *Machine) {
	m.natives["encoding/binary.Write"] = func(m *Machine, a []Value) Value {
		w := a[0].(Iface)
		big := isBigEndian(a[1])
		data := a[2].(Iface)
		var out []*sym.Term
		switch dv := data.V.(type) {
		case Ptr:
			if _, isPtr := data.T.Underlying().(*types.Pointer); isPtr {
				et := data.T.Underlying().(*types.Pointer).Elem()
				m.binEncode(m.load(dv), et, big, &out)
			} else {
				m.unsupported("binary.Write of %s", data.T)
			}
		case Slice:
			et := data.T.Underlying().(*types.Slice).Elem()
			off, ln := m.concSlice(dv)
			for i := 0; i < ln; i++ {
				m.binEncode(m.readElem(dv.Arr, off+i), et, big, &out)
			}
		default:
			m.binEncode(data.V, data.T, big, &out)
		}
		buf := m.byteSliceFromTerms(out)
		r := m.invokeMethod(w, "Write", buf).(Tuple)
		return r[1]
	}
	m.natives["encoding/binary.Read"] = func(m *Machine, a []Value) Value {
		r := a[0]
		big := isBigEndian(a[1])
		data := a[2].(Iface)
		var size int
		var elemT types.Type
		var sl Slice
		isSlice := false
		if p, isPtr := data.V.(Ptr); isPtr {
			// pointer to a slice: decode into the slice's elements
			if pt, ok := data.T.Underlying().(*types.Pointer); ok {
				if st, ok := pt.Elem().Underlying().(*types.Slice); ok {
					data = Iface{T: st, V: m.load(p)}
				}
			}
		}
		switch dv := data.V.(type) {
		case Ptr:
			elemT = data.T.Underlying().(*types.Pointer).Elem()
			size = m.binSize(elemT)
		case Slice:
			isSlice = true
			sl = dv
			elemT = data.T.Underlying().(*types.Slice).Elem()
			_, ln := m.concSlice(dv)
			size = ln * m.binSize(elemT)
		default:
			m.unsupported("binary.Read into %s", data.T)
		}
		arr := m.newArrayLoc(types.Typ[types.Uint8], size)
		n := m.i64(int64(size))
		buf := Slice{Arr: arr, Off: m.i64(0), Len: n, Cap: n}
		res := m.callFn(m.stdFunc("io", "ReadFull"), []Value{r, buf}, nil).(Tuple)
		err := res[1].(Iface)
		if err.T != nil {
			return err
		}
		in := make([]*sym.Term, size)
		for i := range in {
			in[i] = arr.Elems[i].(*sym.Term)
		}
		pos := 0
		if isSlice {
			off, ln := m.concSlice(sl)
			for i := 0; i < ln; i++ {
				m.writeElem(sl.Arr, off+i, m.binDecode(elemT, big, in, &pos))
			}
		} else {
			m.store(data.V.(Ptr), m.binDecode(elemT, big, in, &pos))
		}
		return Iface{}
	}
}

// ---- fmt (minimal; extended by the mfmt model) ----

func registerFmt(m *Machine) {
	m.natives["fmt.Errorf"] = func(m *Machine, a []Value) Value {
		format := a[0].(Str)
		msg := m.trySprintf(format, a[1])
		// %w keeps the wrapped error reachable through Unwrap (real fmt.wrapError type)
		if format.B == nil {
			args := m.argList(a[1])
			ai := 0
			f := format.S
			for i := 0; i+1 < len(f); i++ {
				if f[i] != '%' {
					continue
				}
				j := i + 1
				for j < len(f) && (f[j] == '+' || f[j] == '-' || f[j] == '#' || f[j] == ' ' || f[j] == '.' || (f[j] >= '0' && f[j] <= '9')) {
					j++
				}
				if j >= len(f) {
					break
				}
				if f[j] == '%' {
					i = j
					continue
				}
				if f[j] == 'w' && ai < len(args) && args[ai].T != nil {
					if fp := m.prog.ImportedPackage("fmt"); fp != nil {
						if tn := fp.Type("wrapError"); tn != nil {
							l := m.newLoc(tn.Type())
							l.Kids[0].V = msg
							l.Kids[1].V = args[ai]
							return Iface{T: types.NewPointer(tn.Type()), V: Ptr{L: l, I: -1}}
						}
					}
				}
				ai++
				i = j
			}
		}
		return m.callFn(m.stdFunc("errors", "New"), []Value{msg}, nil)
	}
	m.natives["fmt.Sprintf"] = func(m *Machine, a []Value) Value {
		return m.sprintf(a[0].(Str), a[1])
	}
	m.natives["fmt.Sprint"] = func(m *Machine, a []Value) Value {
		return m.sprint(a[0], false)
	}
	m.natives["fmt.Sprintln"] = func(m *Machine, a []Value) Value {
		return m.sprint(a[0], true)
	}
	m.natives["fmt.Fprintf"] = func(m *Machine, a []Value) Value {
		s := m.sprintf(a[1].(Str), a[2])
		return m.writeStr(a[0].(Iface), s)
	}
	m.natives["fmt.Fprint"] = func(m *Machine, a []Value) Value {
		return m.writeStr(a[0].(Iface), m.sprint(a[1], false))
	}
	m.natives["fmt.Fprintln"] = func(m *Machine, a []Value) Value {
		return m.writeStr(a[0].(Iface), m.sprint(a[1], true))
	}
}

// trySprintf formats an error message; message text that cannot be modelled
// (symbolic operands under %q, %v of structs, ...) degrades to the format
// string itself, since error text is never part of a property.
func (m *Machine) trySprintf(format Str, argv Value) (res Str) {
	defer func() {
		if r := recover(); r != nil {
			if _, ok := r.(*unsupportedErr); ok {
				res = Str{S: format.S}
				return
			}
			panic(r)
		}
	}()
	return m.sprintf(format, argv)
}

func (m *Machine) writeStr(w Iface, s Str) Value {
	buf := m.byteSliceFromTerms(m.strBytes(s))
	return m.invokeMethod(w, "Write", buf)
}
