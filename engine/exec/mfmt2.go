package exec

import "gosym/sym"

// stringerBytes: for plain %s / %v of an operand with an Error() or String()
// method, the method's (possibly symbolic) result is the formatted text.
func (m *Machine) stringerBytes(a Iface, verb byte, spec string) ([]*sym.Term, bool) {
	if a.T == nil || (spec != "%s" && spec != "%v") {
		return nil, false
	}
	if p, ok := a.V.(Ptr); ok && p.L == nil {
		return nil, false
	}
	for _, name := range []string{"Error", "String"} {
		fn := m.lookupMethod(a.T, name)
		if fn == nil || fn.Signature.Params().Len() != 0 || fn.Signature.Results().Len() != 1 {
			continue
		}
		r := m.callFn(fn, []Value{a.V}, nil)
		if s, ok := r.(Str); ok {
			return m.strBytes(s), true
		}
		return nil, false
	}
	return nil, false
}
