package exec

import "gosym/sym"

// stringerBytes: for plain %s / %v of an operand with an Error() or String()
// method, the method's (possibly symbolic) result is the formatted text.
func (m *Machine) stringerBytes(a Iface, verb byte, spec string) ([]*sym.Term, bool) {
	if a.T == nil || (spec != "%s" && spec != "%v") {
		return nil, false
	}
	if p, ok := a.V.(Ptr); ok && p.L == nil {
		return nil, false
	}
	for _, name := range []string{"Error", "String"} {
		fn := m.lookupMethod(a.T, name)
		if fn == nil || fn.Signature.Params().Len() != 0 || fn.Signature.Results().Len() != 1 {
			continue
		}
		r := m.callFn(fn, []Value{a.V}, nil)
		if s, ok := r.(Str); ok {
			return m.strBytes(s), true
		}
		return nil, false
	}
	return nil, false
}

// hexBytes: lower-case hexadecimal text of (possibly symbolic) bytes, two digits each.
func (m *Machine) hexBytes(bs []*sym.Term) []*sym.Term {
	c := m.ctx
	digit := func(n *sym.Term) *sym.Term { // n: 4-bit; result: an ite tree with constant leaves
		acc := c.BV(8, 'f')
		for v := 14; v >= 0; v-- {
			acc = c.Ite(c.Eq(n, c.BV(4, uint64(v))), c.BV(8, uint64("0123456789abcdef"[v])), acc)
		}
		return acc
	}
	out := make([]*sym.Term, 0, 2*len(bs))
	for _, b := range bs {
		out = append(out, digit(c.Extract(b, 7, 4)), digit(c.Extract(b, 3, 0)))
	}
	return out
}
