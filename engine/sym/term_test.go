package sym

import (
	"math/rand"
	"testing"
)

// Differential self-test of the term simplifier: terms built over variables
// (with every rewrite rule enabled) must evaluate, under random models, to the
// value obtained by folding the same operations over constants.
func TestSimplifierAgainstConcrete(t *testing.T) {
	rng := rand.New(rand.NewSource(1))
	c := NewCtx()
	widths := []int{8, 16, 32, 64}
	binops := []Op{OpAdd, OpSub, OpMul, OpUDiv, OpSDiv, OpURem, OpSRem, OpBAnd, OpBOr, OpBXor, OpShl, OpLShr, OpAShr}
	interesting := func(w int) uint64 {
		switch rng.Intn(8) {
		case 0:
			return 0
		case 1:
			return 1
		case 2:
			return mask(w)
		case 3:
			return uint64(1) << uint(rng.Intn(w))
		case 4:
			return (uint64(1) << uint(rng.Intn(w))) - 1
		case 5:
			return uint64(rng.Intn(w + 2))
		}
		return rng.Uint64() & mask(w)
	}
	type gen func(depth int, w int) (*Term, func(m map[string]uint64) uint64)
	var g gen
	nvar := 0
	g = func(depth, w int) (*Term, func(m map[string]uint64) uint64) {
		if depth == 0 || rng.Intn(4) == 0 {
			if rng.Intn(3) == 0 {
				v := interesting(w)
				return c.BV(w, v), func(map[string]uint64) uint64 { return v }
			}
			nvar++
			name := "v" + string(rune('a'+nvar%6)) + string(rune('0'+w/8%10))
			return c.Var(name, w), func(m map[string]uint64) uint64 { return m[name] & mask(w) }
		}
		switch rng.Intn(10) {
		case 0: // extract + zext back
			a, fa := g(depth-1, w)
			hi := rng.Intn(w)
			lo := rng.Intn(hi + 1)
			return c.ZExt(c.Extract(a, hi, lo), w), func(m map[string]uint64) uint64 { return (fa(m) >> uint(lo)) & mask(hi-lo+1) }
		case 1: // sext of narrower
			if w > 8 {
				a, fa := g(depth-1, w/2)
				return c.SExt(a, w), func(m map[string]uint64) uint64 { return uint64(sext64(fa(m), w/2)) & mask(w) }
			}
		case 2: // ite on comparison
			a, fa := g(depth-1, w)
			b, fb := g(depth-1, w)
			x, fx := g(depth-1, w)
			y, fy := g(depth-1, w)
			cmp := []Op{OpULT, OpULE, OpSLT, OpSLE}[rng.Intn(4)]
			return c.Ite(c.cmp(cmp, a, b), x, y), func(m map[string]uint64) uint64 {
				va, vb := fa(m), fb(m)
				var r bool
				switch cmp {
				case OpULT:
					r = va < vb
				case OpULE:
					r = va <= vb
				case OpSLT:
					r = sext64(va, w) < sext64(vb, w)
				case OpSLE:
					r = sext64(va, w) <= sext64(vb, w)
				}
				if r {
					return fx(m)
				}
				return fy(m)
			}
		case 3: // concat of halves
			if w > 8 {
				a, fa := g(depth-1, w/2)
				b, fb := g(depth-1, w/2)
				return c.Concat(a, b), func(m map[string]uint64) uint64 { return fa(m)<<uint(w/2) | fb(m) }
			}
		case 4: // eq as 0/1
			a, fa := g(depth-1, w)
			b, fb := g(depth-1, w)
			return c.Ite(c.Eq(a, b), c.BV(w, 1), c.BV(w, 0)), func(m map[string]uint64) uint64 { return b2u(fa(m) == fb(m)) }
		case 5:
			a, fa := g(depth-1, w)
			if rng.Intn(2) == 0 {
				return c.BNot(a), func(m map[string]uint64) uint64 { return ^fa(m) & mask(w) }
			}
			return c.Neg(a), func(m map[string]uint64) uint64 { return -fa(m) & mask(w) }
		}
		op := binops[rng.Intn(len(binops))]
		a, fa := g(depth-1, w)
		b, fb := g(depth-1, w)
		return c.bin(op, a, b), func(m map[string]uint64) uint64 {
			v, _ := foldBin(op, w, fa(m), fb(m))
			return v
		}
	}
	for iter := 0; iter < 20000; iter++ {
		w := widths[rng.Intn(len(widths))]
		term, f := g(4, w)
		for k := 0; k < 4; k++ {
			md := NewModel()
			raw := map[string]uint64{}
			for _, ww := range widths {
				for i := 0; i < 6; i++ {
					name := "v" + string(rune('a'+i)) + string(rune('0'+ww/8%10))
					v := interesting(ww)
					md.Vars[name] = v
					raw[name] = v
				}
			}
			got := NewEvaluator(md).Eval(term)
			want := f(raw) & mask(w)
			if got != want {
				t.Fatalf("iter %d: term %s evaluates to %#x, concrete semantics give %#x (model %v)", iter, term, got, want, raw)
			}
		}
	}
}
