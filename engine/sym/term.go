// Package sym: hash-consed bit-vector / boolean terms with constant folding,
// an evaluator, an SMT-LIB2 printer and a solver pipe.
package sym

import (
	"fmt"
	"math/bits"
	"strings"
)

type Op uint8

const (
	OpConst Op = iota // bit-vector constant (W>0) or bool constant (W==0)
	OpVar             // named variable
	OpApp             // uninterpreted function application: Name(args...) -> BV W
	OpNot             // bool
	OpAnd             // bool n-ary (binary here)
	OpOr              // bool
	OpEq              // bool <- (a,b) same sort
	OpIte             // (c,a,b)
	OpAdd
	OpSub
	OpMul
	OpUDiv
	OpSDiv
	OpURem
	OpSRem
	OpBAnd
	OpBOr
	OpBXor
	OpBNot
	OpNeg
	OpShl
	OpLShr
	OpAShr
	OpULT
	OpULE
	OpSLT
	OpSLE
	OpExtract // Val = hi<<8|lo
	OpZExt    // to W
	OpSExt    // to W
	OpConcat  // (hi, lo)
)

var opNames = [...]string{"const", "var", "app", "not", "and", "or", "=", "ite", "bvadd", "bvsub", "bvmul", "bvudiv", "bvsdiv", "bvurem", "bvsrem",
	"bvand", "bvor", "bvxor", "bvnot", "bvneg", "bvshl", "bvlshr", "bvashr", "bvult", "bvule", "bvslt", "bvsle", "extract", "zext", "sext", "concat"}

// Term is an immutable, hash-consed term. W==0 means Bool.
type Term struct {
	Op   Op
	W    int
	Args []*Term
	Val  uint64
	Name string
	ID   int
}

type key struct {
	op         Op
	w          int
	a0, a1, a2 int
	val        uint64
	name       string
}

// Ctx owns the hash-cons table.
type Ctx struct {
	tab   map[key]*Term
	appk  map[string]*Term
	terms []*Term
	True  *Term
	False *Term
}

func NewCtx() *Ctx {
	c := &Ctx{tab: map[key]*Term{}, appk: map[string]*Term{}}
	c.False = c.mk(OpConst, 0, 0, "")
	c.True = c.mk(OpConst, 0, 1, "")
	return c
}

func (c *Ctx) NumTerms() int { return len(c.terms) }

func (c *Ctx) mk(op Op, w int, val uint64, name string, args ...*Term) *Term {
	k := key{op: op, w: w, val: val, name: name, a0: -1, a1: -1, a2: -1}
	if len(args) > 3 {
		// n-ary apps: key on string
		var sb strings.Builder
		fmt.Fprintf(&sb, "%d|%d|%s", op, w, name)
		for _, a := range args {
			fmt.Fprintf(&sb, "|%d", a.ID)
		}
		if t, ok := c.appk[sb.String()]; ok {
			return t
		}
		t := &Term{Op: op, W: w, Val: val, Name: name, Args: args, ID: len(c.terms)}
		c.terms = append(c.terms, t)
		c.appk[sb.String()] = t
		return t
	}
	if len(args) > 0 {
		k.a0 = args[0].ID
	}
	if len(args) > 1 {
		k.a1 = args[1].ID
	}
	if len(args) > 2 {
		k.a2 = args[2].ID
	}
	if t, ok := c.tab[k]; ok {
		return t
	}
	t := &Term{Op: op, W: w, Val: val, Name: name, Args: args, ID: len(c.terms)}
	c.terms = append(c.terms, t)
	c.tab[k] = t
	return t
}

func mask(w int) uint64 {
	if w >= 64 {
		return ^uint64(0)
	}
	return (uint64(1) << uint(w)) - 1
}

func sext64(v uint64, w int) int64 {
	if w >= 64 {
		return int64(v)
	}
	sh := uint(64 - w)
	return int64(v<<sh) >> sh
}

func (t *Term) IsConst() bool { return t.Op == OpConst }
func (t *Term) IsBool() bool  { return t.W == 0 }
func (t *Term) IsTrue() bool  { return t.Op == OpConst && t.W == 0 && t.Val == 1 }
func (t *Term) IsFalse() bool { return t.Op == OpConst && t.W == 0 && t.Val == 0 }

// Int returns the constant as signed value.
func (t *Term) Int() int64   { return sext64(t.Val, t.W) }
func (t *Term) Uint() uint64 { return t.Val }

func (c *Ctx) BV(w int, v uint64) *Term {
	if w <= 0 || w > 64 {
		panic(fmt.Sprintf("sym: bad width %d", w))
	}
	return c.mk(OpConst, w, v&mask(w), "")
}
func (c *Ctx) Bool(b bool) *Term {
	if b {
		return c.True
	}
	return c.False
}
func (c *Ctx) Var(name string, w int) *Term { return c.mk(OpVar, w, 0, name) }

// App builds an uninterpreted function application returning BV w.
func (c *Ctx) App(name string, w int, args ...*Term) *Term {
	return c.mk(OpApp, w, 0, name, args...)
}

func (c *Ctx) Not(a *Term) *Term {
	if a.W != 0 {
		panic("sym: Not on non-bool")
	}
	if a.IsConst() {
		return c.Bool(a.Val == 0)
	}
	if a.Op == OpNot {
		return a.Args[0]
	}
	return c.mk(OpNot, 0, 0, "", a)
}

func (c *Ctx) And(a, b *Term) *Term {
	if a.W != 0 || b.W != 0 {
		panic("sym: And on non-bool")
	}
	if a.IsFalse() || b.IsFalse() {
		return c.False
	}
	if a.IsTrue() {
		return b
	}
	if b.IsTrue() {
		return a
	}
	if a == b {
		return a
	}
	if (a.Op == OpNot && a.Args[0] == b) || (b.Op == OpNot && b.Args[0] == a) {
		return c.False
	}
	if a.ID > b.ID {
		a, b = b, a
	}
	return c.mk(OpAnd, 0, 0, "", a, b)
}

func (c *Ctx) Or(a, b *Term) *Term {
	if a.W != 0 || b.W != 0 {
		panic("sym: Or on non-bool")
	}
	if a.IsTrue() || b.IsTrue() {
		return c.True
	}
	if a.IsFalse() {
		return b
	}
	if b.IsFalse() {
		return a
	}
	if a == b {
		return a
	}
	if (a.Op == OpNot && a.Args[0] == b) || (b.Op == OpNot && b.Args[0] == a) {
		return c.True
	}
	if a.ID > b.ID {
		a, b = b, a
	}
	return c.mk(OpOr, 0, 0, "", a, b)
}

func (c *Ctx) Implies(a, b *Term) *Term { return c.Or(c.Not(a), b) }

func (c *Ctx) Eq(a, b *Term) *Term {
	if a.W != b.W {
		panic(fmt.Sprintf("sym: Eq width mismatch %d vs %d", a.W, b.W))
	}
	if a == b {
		return c.True
	}
	if a.IsConst() && b.IsConst() {
		return c.Bool(a.Val == b.Val)
	}
	if a.W == 0 {
		// bool equality
		if a.IsConst() {
			a, b = b, a
		}
		if b.IsTrue() {
			return a
		}
		if b.IsFalse() {
			return c.Not(a)
		}
	}
	if a.IsConst() {
		a, b = b, a
	}
	// push comparison with a constant through ite with a constant arm
	if b.IsConst() && a.Op == OpIte && (a.Args[1].IsConst() || a.Args[2].IsConst()) {
		return c.Ite(a.Args[0], c.Eq(a.Args[1], b), c.Eq(a.Args[2], b))
	}
	// equality of a concatenation with a constant splits into its parts
	if b.IsConst() && a.Op == OpConcat {
		lw := a.Args[1].W
		return c.And(c.Eq(a.Args[0], c.BV(a.Args[0].W, b.Val>>uint(lw))), c.Eq(a.Args[1], c.BV(lw, b.Val&mask(lw))))
	}
	if b.IsConst() && a.Op == OpZExt {
		iw := a.Args[0].W
		if b.Val&^mask(iw) != 0 {
			return c.False
		}
		return c.Eq(a.Args[0], c.BV(iw, b.Val))
	}
	if !b.IsConst() && a.ID > b.ID {
		a, b = b, a
	}
	return c.mk(OpEq, 0, 0, "", a, b)
}

func (c *Ctx) Ite(cond, a, b *Term) *Term {
	if cond.W != 0 {
		panic("sym: Ite cond not bool")
	}
	if a.W != b.W {
		panic(fmt.Sprintf("sym: Ite width mismatch %d vs %d", a.W, b.W))
	}
	if cond.IsConst() {
		if cond.Val != 0 {
			return a
		}
		return b
	}
	if a == b {
		return a
	}
	if a.W == 0 {
		if a.IsTrue() && b.IsFalse() {
			return cond
		}
		if a.IsFalse() && b.IsTrue() {
			return c.Not(cond)
		}
		if a.IsTrue() {
			return c.Or(cond, b)
		}
		if a.IsFalse() {
			return c.And(c.Not(cond), b)
		}
		if b.IsTrue() {
			return c.Or(c.Not(cond), a)
		}
		if b.IsFalse() {
			return c.And(cond, a)
		}
	}
	if cond.Op == OpNot {
		return c.Ite(cond.Args[0], b, a)
	}
	return c.mk(OpIte, a.W, 0, "", cond, a, b)
}

func (c *Ctx) bin(op Op, a, b *Term) *Term {
	if a.W != b.W || a.W == 0 {
		panic(fmt.Sprintf("sym: %s width mismatch %d vs %d", opNames[op], a.W, b.W))
	}
	w := a.W
	if a.IsConst() && b.IsConst() {
		if v, ok := foldBin(op, w, a.Val, b.Val); ok {
			return c.BV(w, v)
		}
	}
	// an operation between a constant and an ite tree with constant leaves (a
	// table lookup) stays such a tree: fold the leaves
	if op != OpMul {
		if b.IsConst() && constLeaves(a, 64) {
			return c.mapLeaves(a, func(k *Term) *Term { return c.bin(op, k, b) })
		}
		if a.IsConst() && constLeaves(b, 64) {
			return c.mapLeaves(b, func(k *Term) *Term { return c.bin(op, a, k) })
		}
	}
	switch op {
	case OpAdd:
		if a.IsConst() {
			a, b = b, a
		}
		if b.IsConst() && b.Val == 0 {
			return a
		}
		// (x + k1) + k2
		if b.IsConst() && a.Op == OpAdd && a.Args[1].IsConst() {
			return c.bin(OpAdd, a.Args[0], c.BV(w, a.Args[1].Val+b.Val))
		}
		if !b.IsConst() && a.ID > b.ID {
			a, b = b, a
		}
	case OpSub:
		if b.IsConst() {
			return c.bin(OpAdd, a, c.BV(w, -b.Val))
		}
		if a == b {
			return c.BV(w, 0)
		}
	case OpMul:
		if a.IsConst() {
			a, b = b, a
		}
		if b.IsConst() {
			if b.Val == 0 {
				return b
			}
			if b.Val == 1 {
				return a
			}
			if b.Val == mask(w) {
				return c.Neg(a)
			}
		}
		// distribute over an ite tree with constant leaves (table lookups)
		if constLeaves(b, 300) && !constLeaves(a, 300) {
			return c.mapLeaves(b, func(k *Term) *Term { return c.bin(OpMul, a, k) })
		}
		if constLeaves(a, 300) && !b.IsConst() {
			return c.mapLeaves(a, func(k *Term) *Term { return c.bin(OpMul, b, k) })
		}
		if !b.IsConst() && a.ID > b.ID {
			a, b = b, a
		}
	case OpBAnd:
		if a.IsConst() {
			a, b = b, a
		}
		if b.IsConst() {
			if b.Val == 0 {
				return b
			}
			if b.Val == mask(w) {
				return a
			}
			// low-bit mask
			if b.Val&(b.Val+1) == 0 {
				k := bits.Len64(b.Val)
				return c.ZExt(c.Extract(a, k-1, 0), w)
			}
		}
		if a == b {
			return a
		}
		if !b.IsConst() && a.ID > b.ID {
			a, b = b, a
		}
	case OpBOr:
		if a.IsConst() {
			a, b = b, a
		}
		if b.IsConst() {
			if b.Val == 0 {
				return a
			}
			if b.Val == mask(w) {
				return b
			}
		}
		if a == b {
			return a
		}
		if !b.IsConst() && a.ID > b.ID {
			a, b = b, a
		}
	case OpBXor:
		if a.IsConst() {
			a, b = b, a
		}
		if b.IsConst() && b.Val == 0 {
			return a
		}
		if a == b {
			return c.BV(w, 0)
		}
		if !b.IsConst() && a.ID > b.ID {
			a, b = b, a
		}
	case OpShl, OpLShr, OpAShr:
		if b.IsConst() && b.Val == 0 {
			return a
		}
		if a.IsConst() && a.Val == 0 {
			return a
		}
		if b.IsConst() && b.Val >= uint64(w) && op != OpAShr {
			return c.BV(w, 0)
		}
		// shifts by a constant are extract/extend/concat (folds through concat, zext, masks)
		if b.IsConst() && b.Val < uint64(w) {
			k := int(b.Val)
			switch op {
			case OpLShr:
				return c.ZExt(c.Extract(a, w-1, k), w)
			case OpAShr:
				return c.SExt(c.Extract(a, w-1, k), w)
			case OpShl:
				return c.Concat(c.Extract(a, w-1-k, 0), c.BV(k, 0))
			}
		}
	case OpUDiv, OpSDiv:
		if b.IsConst() && b.Val == 1 {
			return a
		}
		// division by a power of two of a value whose sign bit is known clear
		if b.IsConst() && b.Val != 0 && b.Val&(b.Val-1) == 0 && (op == OpUDiv || c.topBitZero(a)) && sext64(b.Val, w) > 0 {
			k := bits.TrailingZeros64(b.Val)
			return c.ZExt(c.Extract(a, w-1, k), w)
		}
	case OpURem, OpSRem:
		if b.IsConst() && b.Val != 0 && b.Val&(b.Val-1) == 0 && (op == OpURem || c.topBitZero(a)) && sext64(b.Val, w) > 0 {
			k := bits.TrailingZeros64(b.Val)
			if k == 0 {
				return c.BV(w, 0)
			}
			return c.ZExt(c.Extract(a, k-1, 0), w)
		}
	}
	return c.mk(op, w, 0, "", a, b)
}

// topBitZero: is the most significant bit of t syntactically zero?
func (c *Ctx) topBitZero(t *Term) bool {
	switch t.Op {
	case OpConst:
		return t.Val>>(uint(t.W)-1) == 0
	case OpZExt:
		return t.Args[0].W < t.W
	case OpConcat:
		return c.topBitZero(t.Args[0])
	case OpIte:
		return c.topBitZero(t.Args[1]) && c.topBitZero(t.Args[2])
	case OpBAnd:
		return c.topBitZero(t.Args[0]) || c.topBitZero(t.Args[1])
	case OpBOr:
		return c.topBitZero(t.Args[0]) && c.topBitZero(t.Args[1])
	}
	return false
}

// ConstLeaves / MapLeaves are the exported forms used by the interpreter for
// table lookups with an ite-tree index.
func ConstLeaves(t *Term, n int) bool { return constLeaves(t, n) }
func (c *Ctx) MapLeaves(t *Term, f func(*Term) *Term) *Term {
	return c.mapLeaves(t, f)
}

// constLeaves reports whether t is an ite tree (at most n nodes) whose leaves are all constants.
func constLeaves(t *Term, n int) bool {
	cnt := 0
	var rec func(t *Term) bool
	rec = func(t *Term) bool {
		cnt++
		if cnt > n*2 {
			return false
		}
		if t.Op == OpConst {
			return true
		}
		if t.Op == OpIte {
			return rec(t.Args[1]) && rec(t.Args[2])
		}
		return false
	}
	return t.Op == OpIte && rec(t)
}

func (c *Ctx) mapLeaves(t *Term, f func(*Term) *Term) *Term {
	if t.Op == OpIte {
		return c.Ite(t.Args[0], c.mapLeaves(t.Args[1], f), c.mapLeaves(t.Args[2], f))
	}
	return f(t)
}

func foldBin(op Op, w int, x, y uint64) (uint64, bool) {
	m := mask(w)
	switch op {
	case OpAdd:
		return (x + y) & m, true
	case OpSub:
		return (x - y) & m, true
	case OpMul:
		return (x * y) & m, true
	case OpUDiv:
		if y == 0 {
			return m, true
		}
		return x / y, true
	case OpURem:
		if y == 0 {
			return x, true
		}
		return x % y, true
	case OpSDiv:
		sx, sy := sext64(x, w), sext64(y, w)
		if sy == 0 {
			if sx < 0 {
				return 1, true
			}
			return m, true
		}
		if sy == -1 {
			return uint64(-sx) & m, true
		}
		return uint64(sx/sy) & m, true
	case OpSRem:
		sx, sy := sext64(x, w), sext64(y, w)
		if sy == 0 {
			return x, true
		}
		if sy == -1 {
			return 0, true
		}
		return uint64(sx%sy) & m, true
	case OpBAnd:
		return x & y, true
	case OpBOr:
		return x | y, true
	case OpBXor:
		return x ^ y, true
	case OpShl:
		if y >= uint64(w) {
			return 0, true
		}
		return (x << y) & m, true
	case OpLShr:
		if y >= uint64(w) {
			return 0, true
		}
		return x >> y, true
	case OpAShr:
		sx := sext64(x, w)
		if y >= uint64(w) {
			y = uint64(w - 1)
		}
		return uint64(sx>>y) & m, true
	}
	return 0, false
}

func (c *Ctx) Add(a, b *Term) *Term  { return c.bin(OpAdd, a, b) }
func (c *Ctx) Sub(a, b *Term) *Term  { return c.bin(OpSub, a, b) }
func (c *Ctx) Mul(a, b *Term) *Term  { return c.bin(OpMul, a, b) }
func (c *Ctx) UDiv(a, b *Term) *Term { return c.bin(OpUDiv, a, b) }
func (c *Ctx) SDiv(a, b *Term) *Term { return c.bin(OpSDiv, a, b) }
func (c *Ctx) URem(a, b *Term) *Term { return c.bin(OpURem, a, b) }
func (c *Ctx) SRem(a, b *Term) *Term { return c.bin(OpSRem, a, b) }
func (c *Ctx) BAnd(a, b *Term) *Term { return c.bin(OpBAnd, a, b) }
func (c *Ctx) BOr(a, b *Term) *Term  { return c.bin(OpBOr, a, b) }
func (c *Ctx) BXor(a, b *Term) *Term { return c.bin(OpBXor, a, b) }
func (c *Ctx) Shl(a, b *Term) *Term  { return c.bin(OpShl, a, b) }
func (c *Ctx) LShr(a, b *Term) *Term { return c.bin(OpLShr, a, b) }
func (c *Ctx) AShr(a, b *Term) *Term { return c.bin(OpAShr, a, b) }

func (c *Ctx) BNot(a *Term) *Term {
	if a.IsConst() {
		return c.BV(a.W, ^a.Val)
	}
	if a.Op == OpBNot {
		return a.Args[0]
	}
	return c.mk(OpBNot, a.W, 0, "", a)
}
func (c *Ctx) Neg(a *Term) *Term {
	if a.IsConst() {
		return c.BV(a.W, -a.Val)
	}
	return c.mk(OpNeg, a.W, 0, "", a)
}

func (c *Ctx) cmp(op Op, a, b *Term) *Term {
	if a.W != b.W || a.W == 0 {
		panic(fmt.Sprintf("sym: %s width mismatch %d vs %d", opNames[op], a.W, b.W))
	}
	if a.IsConst() && b.IsConst() {
		switch op {
		case OpULT:
			return c.Bool(a.Val < b.Val)
		case OpULE:
			return c.Bool(a.Val <= b.Val)
		case OpSLT:
			return c.Bool(a.Int() < b.Int())
		case OpSLE:
			return c.Bool(a.Int() <= b.Int())
		}
	}
	if a == b {
		return c.Bool(op == OpULE || op == OpSLE)
	}
	// comparison of a constant-leaf ite tree (table lookup) with a constant
	if b.IsConst() && constLeaves(a, 64) {
		return c.mapLeaves(a, func(k *Term) *Term { return c.cmp(op, k, b) })
	}
	if a.IsConst() && constLeaves(b, 64) {
		return c.mapLeaves(b, func(k *Term) *Term { return c.cmp(op, a, k) })
	}
	switch op {
	case OpULT:
		if b.IsConst() && b.Val == 0 {
			return c.False
		}
		if a.IsConst() && a.Val == mask(a.W) {
			return c.False
		}
	case OpULE:
		if a.IsConst() && a.Val == 0 {
			return c.True
		}
		if b.IsConst() && b.Val == mask(a.W) {
			return c.True
		}
	}
	// zext(x) cmp const, where const fits: compare in narrow width (unsigned, or signed when both non-negative)
	if a.Op == OpZExt && b.IsConst() && a.Args[0].W < a.W {
		iw := a.Args[0].W
		if b.Val&^mask(iw) == 0 {
			switch op {
			case OpULT, OpSLT:
				return c.cmp(OpULT, a.Args[0], c.BV(iw, b.Val))
			case OpULE, OpSLE:
				return c.cmp(OpULE, a.Args[0], c.BV(iw, b.Val))
			}
		} else if (op == OpULT || op == OpULE) || sext64(b.Val, b.W) > 0 {
			return c.True
		} else {
			return c.False // signed compare with negative constant: zext is >= 0
		}
	}
	if b.Op == OpZExt && a.IsConst() && b.Args[0].W < b.W {
		iw := b.Args[0].W
		if a.Val&^mask(iw) == 0 {
			switch op {
			case OpULT, OpSLT:
				return c.cmp(OpULT, c.BV(iw, a.Val), b.Args[0])
			case OpULE, OpSLE:
				return c.cmp(OpULE, c.BV(iw, a.Val), b.Args[0])
			}
		} else if (op == OpULT || op == OpULE) || sext64(a.Val, a.W) > 0 {
			return c.False
		} else {
			return c.True
		}
	}
	return c.mk(op, 0, 0, "", a, b)
}

func (c *Ctx) ULT(a, b *Term) *Term { return c.cmp(OpULT, a, b) }
func (c *Ctx) ULE(a, b *Term) *Term { return c.cmp(OpULE, a, b) }
func (c *Ctx) SLT(a, b *Term) *Term { return c.cmp(OpSLT, a, b) }
func (c *Ctx) SLE(a, b *Term) *Term { return c.cmp(OpSLE, a, b) }

func (c *Ctx) Extract(a *Term, hi, lo int) *Term {
	if hi < lo || hi >= a.W || lo < 0 {
		panic(fmt.Sprintf("sym: bad extract [%d:%d] of width %d", hi, lo, a.W))
	}
	w := hi - lo + 1
	if w == a.W {
		return a
	}
	if a.IsConst() {
		return c.BV(w, a.Val>>uint(lo))
	}
	switch a.Op {
	case OpZExt, OpSExt:
		iw := a.Args[0].W
		if hi < iw {
			return c.Extract(a.Args[0], hi, lo)
		}
		if lo >= iw && a.Op == OpZExt {
			return c.BV(w, 0)
		}
		if lo == 0 && a.Op == OpZExt {
			return c.ZExt(a.Args[0], w)
		}
		if lo == 0 && a.Op == OpSExt {
			return c.SExt(a.Args[0], w)
		}
	case OpExtract:
		ilo := int(a.Val & 0xff)
		return c.Extract(a.Args[0], hi+ilo, lo+ilo)
	case OpConcat:
		lw := a.Args[1].W
		if hi < lw {
			return c.Extract(a.Args[1], hi, lo)
		}
		if lo >= lw {
			return c.Extract(a.Args[0], hi-lw, lo-lw)
		}
	case OpIte:
		if a.Args[1].IsConst() || a.Args[2].IsConst() {
			return c.Ite(a.Args[0], c.Extract(a.Args[1], hi, lo), c.Extract(a.Args[2], hi, lo))
		}
	case OpBAnd, OpBOr, OpBXor:
		if lo == 0 || a.Args[1].IsConst() {
			return c.bin(a.Op, c.Extract(a.Args[0], hi, lo), c.Extract(a.Args[1], hi, lo))
		}
	case OpAdd, OpSub, OpMul:
		if lo == 0 {
			return c.bin(a.Op, c.Extract(a.Args[0], hi, 0), c.Extract(a.Args[1], hi, 0))
		}
	}
	return c.mk(OpExtract, w, uint64(hi)<<8|uint64(lo), "", a)
}

func (c *Ctx) ZExt(a *Term, w int) *Term {
	if w == a.W {
		return a
	}
	if w < a.W {
		panic("sym: zext narrower")
	}
	if a.IsConst() {
		return c.BV(w, a.Val)
	}
	if a.Op == OpZExt {
		return c.ZExt(a.Args[0], w)
	}
	if a.Op == OpIte && (a.Args[1].IsConst() || a.Args[2].IsConst()) {
		return c.Ite(a.Args[0], c.ZExt(a.Args[1], w), c.ZExt(a.Args[2], w))
	}
	return c.mk(OpZExt, w, 0, "", a)
}

func (c *Ctx) SExt(a *Term, w int) *Term {
	if w == a.W {
		return a
	}
	if w < a.W {
		panic("sym: sext narrower")
	}
	if a.IsConst() {
		return c.BV(w, uint64(a.Int()))
	}
	if a.Op == OpSExt {
		return c.SExt(a.Args[0], w)
	}
	if a.Op == OpZExt {
		return c.ZExt(a.Args[0], w)
	}
	if a.Op == OpIte && (a.Args[1].IsConst() || a.Args[2].IsConst()) {
		return c.Ite(a.Args[0], c.SExt(a.Args[1], w), c.SExt(a.Args[2], w))
	}
	return c.mk(OpSExt, w, 0, "", a)
}

func (c *Ctx) Concat(hi, lo *Term) *Term {
	w := hi.W + lo.W
	if w > 64 {
		panic("sym: concat too wide")
	}
	if hi.IsConst() && lo.IsConst() {
		return c.BV(w, hi.Val<<uint(lo.W)|lo.Val)
	}
	if hi.IsConst() && hi.Val == 0 {
		return c.ZExt(lo, w)
	}
	if hi.Op == OpExtract && lo.Op == OpExtract && hi.Args[0] == lo.Args[0] && int(hi.Val&0xff) == int(lo.Val>>8)+1 {
		return c.Extract(hi.Args[0], int(hi.Val>>8), int(lo.Val&0xff))
	}
	return c.mk(OpConcat, w, 0, "", hi, lo)
}

// Resize converts a to width w, sign- or zero-extending or truncating.
func (c *Ctx) Resize(a *Term, w int, signed bool) *Term {
	switch {
	case w == a.W:
		return a
	case w < a.W:
		return c.Extract(a, w-1, 0)
	case signed:
		return c.SExt(a, w)
	default:
		return c.ZExt(a, w)
	}
}

// Eval evaluates t under model m (missing variables are 0). memo may be nil.
type Model struct {
	Vars map[string]uint64
	Apps map[string]uint64 // key: name(arg,arg)
}

func NewModel() *Model { return &Model{Vars: map[string]uint64{}, Apps: map[string]uint64{}} }

func AppKey(name string, args []uint64) string {
	var sb strings.Builder
	sb.WriteString(name)
	for _, a := range args {
		fmt.Fprintf(&sb, ",%d", a)
	}
	return sb.String()
}

type Evaluator struct {
	M    *Model
	memo map[int]uint64
}

func NewEvaluator(m *Model) *Evaluator { return &Evaluator{M: m, memo: map[int]uint64{}} }

func (e *Evaluator) Bool(t *Term) bool { return e.Eval(t) != 0 }

func (e *Evaluator) Eval(t *Term) uint64 {
	if t.Op == OpConst {
		return t.Val
	}
	if v, ok := e.memo[t.ID]; ok {
		return v
	}
	v := e.eval(t)
	e.memo[t.ID] = v
	return v
}

func b2u(b bool) uint64 {
	if b {
		return 1
	}
	return 0
}

func (e *Evaluator) eval(t *Term) uint64 {
	switch t.Op {
	case OpVar:
		return e.M.Vars[t.Name] & maskb(t.W)
	case OpApp:
		args := make([]uint64, len(t.Args))
		for i, a := range t.Args {
			args[i] = e.Eval(a)
		}
		return e.M.Apps[AppKey(t.Name, args)] & maskb(t.W)
	case OpNot:
		return b2u(e.Eval(t.Args[0]) == 0)
	case OpAnd:
		return b2u(e.Eval(t.Args[0]) != 0 && e.Eval(t.Args[1]) != 0)
	case OpOr:
		return b2u(e.Eval(t.Args[0]) != 0 || e.Eval(t.Args[1]) != 0)
	case OpEq:
		return b2u(e.Eval(t.Args[0]) == e.Eval(t.Args[1]))
	case OpIte:
		if e.Eval(t.Args[0]) != 0 {
			return e.Eval(t.Args[1])
		}
		return e.Eval(t.Args[2])
	case OpBNot:
		return ^e.Eval(t.Args[0]) & mask(t.W)
	case OpNeg:
		return -e.Eval(t.Args[0]) & mask(t.W)
	case OpULT:
		return b2u(e.Eval(t.Args[0]) < e.Eval(t.Args[1]))
	case OpULE:
		return b2u(e.Eval(t.Args[0]) <= e.Eval(t.Args[1]))
	case OpSLT:
		w := t.Args[0].W
		return b2u(sext64(e.Eval(t.Args[0]), w) < sext64(e.Eval(t.Args[1]), w))
	case OpSLE:
		w := t.Args[0].W
		return b2u(sext64(e.Eval(t.Args[0]), w) <= sext64(e.Eval(t.Args[1]), w))
	case OpExtract:
		hi, lo := int(t.Val>>8), int(t.Val&0xff)
		return (e.Eval(t.Args[0]) >> uint(lo)) & mask(hi-lo+1)
	case OpZExt:
		return e.Eval(t.Args[0])
	case OpSExt:
		return uint64(sext64(e.Eval(t.Args[0]), t.Args[0].W)) & mask(t.W)
	case OpConcat:
		return (e.Eval(t.Args[0])<<uint(t.Args[1].W) | e.Eval(t.Args[1])) & mask(t.W)
	default:
		v, ok := foldBin(t.Op, t.W, e.Eval(t.Args[0]), e.Eval(t.Args[1]))
		if !ok {
			panic("sym: eval of " + opNames[t.Op])
		}
		return v
	}
}

func maskb(w int) uint64 {
	if w == 0 {
		return 1
	}
	return mask(w)
}

// Vars collects variables and applications reachable from the roots.
func CollectLeaves(roots []*Term, seen map[int]bool, vars *[]*Term, apps *[]*Term) {
	var rec func(t *Term)
	rec = func(t *Term) {
		if seen[t.ID] {
			return
		}
		seen[t.ID] = true
		switch t.Op {
		case OpVar:
			*vars = append(*vars, t)
		case OpApp:
			*apps = append(*apps, t)
		}
		for _, a := range t.Args {
			rec(a)
		}
	}
	for _, r := range roots {
		rec(r)
	}
}

func (t *Term) String() string {
	var sb strings.Builder
	t.str(&sb, 0)
	return sb.String()
}

func (t *Term) str(sb *strings.Builder, d int) {
	if d > 6 {
		sb.WriteString("…")
		return
	}
	switch t.Op {
	case OpConst:
		if t.W == 0 {
			if t.Val != 0 {
				sb.WriteString("true")
			} else {
				sb.WriteString("false")
			}
		} else {
			fmt.Fprintf(sb, "%d:%d", t.Int(), t.W)
		}
	case OpVar:
		sb.WriteString(t.Name)
	default:
		sb.WriteString("(")
		if t.Op == OpApp {
			sb.WriteString(t.Name)
		} else if t.Op == OpExtract {
			fmt.Fprintf(sb, "extract[%d:%d]", t.Val>>8, t.Val&0xff)
		} else {
			sb.WriteString(opNames[t.Op])
			if t.Op == OpZExt || t.Op == OpSExt {
				fmt.Fprintf(sb, "%d", t.W)
			}
		}
		for _, a := range t.Args {
			sb.WriteString(" ")
			a.str(sb, d+1)
		}
		sb.WriteString(")")
	}
}

var _ = bits.Len

// Rebuild constructs a term like t with new arguments (re-running the simplifier).
func (c *Ctx) Rebuild(t *Term, args []*Term) *Term {
	switch t.Op {
	case OpNot:
		return c.Not(args[0])
	case OpAnd:
		return c.And(args[0], args[1])
	case OpOr:
		return c.Or(args[0], args[1])
	case OpEq:
		return c.Eq(args[0], args[1])
	case OpIte:
		return c.Ite(args[0], args[1], args[2])
	case OpBNot:
		return c.BNot(args[0])
	case OpNeg:
		return c.Neg(args[0])
	case OpULT, OpULE, OpSLT, OpSLE:
		return c.cmp(t.Op, args[0], args[1])
	case OpExtract:
		return c.Extract(args[0], int(t.Val>>8), int(t.Val&0xff))
	case OpZExt:
		return c.ZExt(args[0], t.W)
	case OpSExt:
		return c.SExt(args[0], t.W)
	case OpConcat:
		return c.Concat(args[0], args[1])
	case OpApp:
		return c.App(t.Name, t.W, args...)
	case OpAdd, OpSub, OpMul, OpUDiv, OpSDiv, OpURem, OpSRem, OpBAnd, OpBOr, OpBXor, OpShl, OpLShr, OpAShr:
		return c.bin(t.Op, args[0], args[1])
	}
	return t
}
