package sym

import (
	"bufio"
	"fmt"
	"io"
	"os/exec"
	"strconv"
	"strings"
	"sync/atomic"
	"time"
)

type Result int

const (
	Unsat Result = iota
	Sat
	Unknown
)

func (r Result) String() string { return [...]string{"unsat", "sat", "unknown"}[r] }

// Solver is one long-lived SMT solver process. Terms are defined once with
// define-fun at level 0 and referenced by name in queries.
type Solver struct {
	Name      string
	cmd       *exec.Cmd
	in        io.WriteCloser
	out       *bufio.Reader
	ctx       *Ctx
	defined   map[int]bool
	TimeoutMs int
	// statistics
	Queries    int
	NSat       int
	NUnsat     int
	NUnknown   int
	Time       time.Duration
	Errors     []string
	Dump       io.Writer
	sinceReset int
	argv       []string
	nameIDs    map[string]int
	stack      []*Term
}

func solverArgv(name string) []string {
	switch name {
	case "z3":
		return []string{"z3", "-in", "-smt2"}
	case "z3-new":
		return []string{"z3-new", "-in", "-smt2"}
	case "cvc5":
		return []string{"cvc5", "--incremental", "--lang=smt2", "--produce-models"}
	}
	return []string{name}
}

func NewSolver(ctx *Ctx, name string, timeoutMs int) (*Solver, error) {
	s := &Solver{Name: name, ctx: ctx, TimeoutMs: timeoutMs, argv: solverArgv(name)}
	if err := s.start(); err != nil {
		return nil, err
	}
	return s, nil
}

func (s *Solver) start() error {
	s.cmd = exec.Command(s.argv[0], s.argv[1:]...)
	in, err := s.cmd.StdinPipe()
	if err != nil {
		return err
	}
	out, err := s.cmd.StdoutPipe()
	if err != nil {
		return err
	}
	s.cmd.Stderr = s.cmd.Stdout
	if err := s.cmd.Start(); err != nil {
		return err
	}
	s.in = in
	s.out = bufio.NewReaderSize(out, 1<<16)
	s.defined = map[int]bool{}
	s.sinceReset = 0
	s.stack = nil
	s.send("(set-option :produce-models true)\n(set-option :global-declarations true)\n")
	if s.Name == "cvc5" {
		s.send("(set-logic ALL)\n")
		s.send(fmt.Sprintf("(set-option :tlimit-per %d)\n", s.TimeoutMs))
	} else {
		s.send(fmt.Sprintf("(set-option :timeout %d)\n", s.TimeoutMs))
	}
	return nil
}

func (s *Solver) Close() {
	if s.cmd != nil {
		s.in.Close()
		s.cmd.Process.Kill()
		s.cmd.Wait()
		s.cmd = nil
	}
}

func (s *Solver) restart() {
	s.Close()
	s.start()
}

func (s *Solver) send(str string) {
	if s.Dump != nil {
		io.WriteString(s.Dump, str)
	}
	io.WriteString(s.in, str)
}

func sortStr(w int) string {
	if w == 0 {
		return "Bool"
	}
	return fmt.Sprintf("(_ BitVec %d)", w)
}

func bvLit(w int, v uint64) string {
	if w%4 == 0 {
		return fmt.Sprintf("#x%0*x", w/4, v)
	}
	return fmt.Sprintf("#b%0*b", w, v)
}

func (s *Solver) ref(t *Term) string {
	switch t.Op {
	case OpConst:
		if t.W == 0 {
			if t.Val != 0 {
				return "true"
			}
			return "false"
		}
		return bvLit(t.W, t.Val)
	case OpVar:
		return "|" + t.Name + "|"
	}
	return "t" + strconv.Itoa(t.ID)
}

// define ensures t and all its sub-terms are defined in the solver.
func (s *Solver) define(t *Term, sb *strings.Builder) {
	if t.Op == OpConst || s.defined[t.ID] {
		return
	}
	// iterative post-order to avoid deep recursion
	type fr struct {
		t *Term
		i int
	}
	stack := []fr{{t, 0}}
	for len(stack) > 0 {
		f := &stack[len(stack)-1]
		if f.t.Op == OpConst || s.defined[f.t.ID] {
			stack = stack[:len(stack)-1]
			continue
		}
		if f.i < len(f.t.Args) {
			a := f.t.Args[f.i]
			f.i++
			if a.Op != OpConst && !s.defined[a.ID] {
				stack = append(stack, fr{a, 0})
			}
			continue
		}
		s.emitDef(f.t, sb)
		s.defined[f.t.ID] = true
		stack = stack[:len(stack)-1]
	}
}

func (s *Solver) emitDef(t *Term, sb *strings.Builder) {
	switch t.Op {
	case OpVar:
		fmt.Fprintf(sb, "(declare-fun |%s| () %s)\n", t.Name, sortStr(t.W))
		return
	case OpApp:
		key := -1 - len(t.Args)*1000 - s.hashName(t.Name)
		if !s.defined[key] {
			s.defined[key] = true
			fmt.Fprintf(sb, "(declare-fun |%s| (", t.Name)
			for _, a := range t.Args {
				sb.WriteString(sortStr(a.W))
				sb.WriteString(" ")
			}
			fmt.Fprintf(sb, ") %s)\n", sortStr(t.W))
		}
	}
	fmt.Fprintf(sb, "(define-fun t%d () %s ", t.ID, sortStr(t.W))
	switch t.Op {
	case OpApp:
		fmt.Fprintf(sb, "(|%s|", t.Name)
		for _, a := range t.Args {
			sb.WriteString(" ")
			sb.WriteString(s.ref(a))
		}
		sb.WriteString(")")
	case OpExtract:
		fmt.Fprintf(sb, "((_ extract %d %d) %s)", t.Val>>8, t.Val&0xff, s.ref(t.Args[0]))
	case OpZExt:
		fmt.Fprintf(sb, "((_ zero_extend %d) %s)", t.W-t.Args[0].W, s.ref(t.Args[0]))
	case OpSExt:
		fmt.Fprintf(sb, "((_ sign_extend %d) %s)", t.W-t.Args[0].W, s.ref(t.Args[0]))
	default:
		sb.WriteString("(")
		sb.WriteString(opNames[t.Op])
		for _, a := range t.Args {
			sb.WriteString(" ")
			sb.WriteString(s.ref(a))
		}
		sb.WriteString(")")
	}
	sb.WriteString(")\n")
}

func (s *Solver) hashName(n string) int {
	if s.nameIDs == nil {
		s.nameIDs = map[string]int{}
	}
	if id, ok := s.nameIDs[n]; ok {
		return id
	}
	id := len(s.nameIDs) + 1
	s.nameIDs[n] = id
	return id * 1000000
}

func (s *Solver) readLine() (string, error) {
	line, err := s.out.ReadString('\n')
	return strings.TrimSpace(line), err
}

// readSexp reads one balanced s-expression (possibly multi-line) or an atom line.
func (s *Solver) readSexp() (string, error) {
	var sb strings.Builder
	depth := 0
	started := false
	inBar := false
	for {
		line, err := s.out.ReadString('\n')
		if err != nil && line == "" {
			return sb.String(), err
		}
		for _, ch := range line {
			switch {
			case ch == '|':
				inBar = !inBar
			case inBar:
			case ch == '(':
				depth++
				started = true
			case ch == ')':
				depth--
			}
		}
		sb.WriteString(line)
		if strings.TrimSpace(sb.String()) == "" {
			continue
		}
		if !started || depth <= 0 {
			return strings.TrimSpace(sb.String()), nil
		}
	}
}

// Check decides satisfiability of pc ∧ extra. The path condition is kept on the
// solver's assertion stack (one push level per conjunct) and shared between
// consecutive queries with a common prefix.
func (s *Solver) Check(pc []*Term, extra *Term, wantModel bool) (Result, *Model) {
	start := time.Now()
	defer func() { s.Time += time.Since(start) }()
	s.Queries++
	s.sinceReset++
	if s.sinceReset > 20000 {
		s.restart()
	}
	var sb strings.Builder
	// common prefix with the current assertion stack
	k := 0
	for k < len(s.stack) && k < len(pc) && s.stack[k] == pc[k] {
		k++
	}
	if n := len(s.stack) - k; n > 0 {
		fmt.Fprintf(&sb, "(pop %d)\n", n)
		s.stack = s.stack[:k]
	}
	for _, a := range pc[k:] {
		s.define(a, &sb)
		fmt.Fprintf(&sb, "(push 1)\n(assert %s)\n", s.ref(a))
		s.stack = append(s.stack, a)
	}
	s.define(extra, &sb)
	fmt.Fprintf(&sb, "(push 1)\n(assert %s)\n(check-sat)\n", s.ref(extra))
	s.send(sb.String())
	// watchdog: a back end that ignores its own time limit is killed and the
	// query reported unknown (the caller's portfolio then takes over)
	proc := s.cmd.Process
	var killed atomic.Bool
	wd := time.AfterFunc(time.Duration(s.TimeoutMs)*time.Millisecond+10*time.Second, func() { killed.Store(true); proc.Kill() })
	defer wd.Stop()
	var ans string
	for {
		line, err := s.readLine()
		if err != nil {
			if !killed.Load() {
				s.Errors = append(s.Errors, "solver died: "+err.Error())
			}
			s.NUnknown++
			s.restart()
			return Unknown, nil
		}
		if line == "" {
			continue
		}
		if strings.HasPrefix(line, "(error") {
			s.Errors = append(s.Errors, line)
			continue
		}
		ans = line
		break
	}
	res := Unknown
	switch ans {
	case "sat":
		res = Sat
	case "unsat":
		res = Unsat
	}
	if len(s.Errors) > 0 {
		res = Unknown
	}
	var model *Model
	if res == Sat && wantModel {
		all := append(append([]*Term{}, pc...), extra)
		model = s.getModel(all)
	}
	s.send("(pop 1)\n")
	switch res {
	case Sat:
		s.NSat++
	case Unsat:
		s.NUnsat++
	default:
		s.NUnknown++
	}
	return res, model
}

func (s *Solver) getValues(terms []*Term) ([]uint64, bool) {
	if len(terms) == 0 {
		return nil, true
	}
	var sb strings.Builder
	sb.WriteString("(get-value (")
	for _, t := range terms {
		sb.WriteString(s.ref(t))
		sb.WriteString(" ")
	}
	sb.WriteString("))\n")
	s.send(sb.String())
	resp, err := s.readSexp()
	if err != nil || strings.HasPrefix(resp, "(error") {
		s.Errors = append(s.Errors, "get-value: "+resp)
		return nil, false
	}
	vals := parseValues(resp)
	if len(vals) != len(terms) {
		s.Errors = append(s.Errors, fmt.Sprintf("get-value: parsed %d of %d: %.200s", len(vals), len(terms), resp))
		return nil, false
	}
	return vals, true
}

func (s *Solver) getModel(asserts []*Term) *Model {
	var vars, apps []*Term
	CollectLeaves(asserts, map[int]bool{}, &vars, &apps)
	m := NewModel()
	vals, ok := s.getValues(vars)
	if !ok {
		return nil
	}
	for i, v := range vars {
		m.Vars[v.Name] = vals[i]
	}
	if len(apps) > 0 {
		// application arguments may themselves contain applications: evaluate via the solver
		var argTerms []*Term
		for _, a := range apps {
			argTerms = append(argTerms, a.Args...)
			argTerms = append(argTerms, a)
		}
		av, ok := s.getValues(argTerms)
		if !ok {
			return nil
		}
		k := 0
		for _, a := range apps {
			args := av[k : k+len(a.Args)]
			m.Apps[AppKey(a.Name, args)] = av[k+len(a.Args)]
			k += len(a.Args) + 1
		}
	}
	return m
}

// parseValues extracts the value literals from a get-value response
// ((name val) (name val) ...). Values are #x.., #b.., true, false.
func parseValues(resp string) []uint64 {
	var vals []uint64
	i := 0
	n := len(resp)
	depth := 0
	for i < n {
		ch := resp[i]
		switch {
		case ch == '(':
			depth++
			i++
		case ch == ')':
			depth--
			i++
		case ch == '|':
			j := strings.IndexByte(resp[i+1:], '|')
			if j < 0 {
				return vals
			}
			i += j + 2
		case ch == ' ' || ch == '\n' || ch == '\t' || ch == '\r':
			i++
		default:
			j := i
			for j < n && resp[j] != ' ' && resp[j] != ')' && resp[j] != '(' && resp[j] != '\n' {
				j++
			}
			tok := resp[i:j]
			i = j
			// a value token is the last token before ')' closing depth 2->1
			k := i
			for k < n && (resp[k] == ' ' || resp[k] == '\n') {
				k++
			}
			if depth == 2 && k < n && resp[k] == ')' {
				switch {
				case strings.HasPrefix(tok, "#x"):
					v, _ := strconv.ParseUint(tok[2:], 16, 64)
					vals = append(vals, v)
				case strings.HasPrefix(tok, "#b"):
					v, _ := strconv.ParseUint(tok[2:], 2, 64)
					vals = append(vals, v)
				case tok == "true":
					vals = append(vals, 1)
				case tok == "false":
					vals = append(vals, 0)
				}
			} else if depth == 3 && strings.HasPrefix(tok, "bv") && k < n {
				// (_ bv123 32)
				if v, err := strconv.ParseUint(tok[2:], 10, 64); err == nil {
					vals = append(vals, v)
				}
			}
		}
	}
	return vals
}
