// gosym: symbolic execution of Go SSA harnesses against /repo's current tree.
package main

import (
	"crypto/sha256"
	"encoding/hex"
	"encoding/json"
	"flag"
	"fmt"
	"os"
	"path/filepath"
	"sort"
		"strings"
	"sync"
	"time"

	"gosym/exec"
	"gosym/sym"

	"golang.org/x/tools/go/packages"
	"golang.org/x/tools/go/ssa"
	"golang.org/x/tools/go/ssa/ssautil"
)

type multiFlag []string

func (f *multiFlag) String() string     { return strings.Join(*f, ",") }
func (f *multiFlag) Set(s string) error { *f = append(*f, s); return nil }

type FuncInfo struct {
	Name  string `json:"name"`
	File  string `json:"file,omitempty"`
	SHA   string `json:"sha256,omitempty"`
	Calls int64  `json:"calls"`
}

type Result struct {
	Harness     string            `json:"harness"`
	Pkg         string            `json:"pkg"`
	Complete    bool              `json:"complete"`
	Reason      string            `json:"reason,omitempty"`
	Paths       int               `json:"paths"`
	Completed   int               `json:"paths_completed"`
	Steps       int64             `json:"ssa_instructions"`
	Decisions   int               `json:"decisions"`
	Checks      int               `json:"vc_checks"`
	AssumeKilled int              `json:"assume_killed"`
	OverLimit   int               `json:"alloc_over_limit"`
	UnwindHits  int               `json:"unwind_hits"`
	Unknowns    int               `json:"solver_unknown"`
	Unsupported map[string]int    `json:"unsupported,omitempty"`
	EngineErrors []string         `json:"engine_errors,omitempty"`
	SolverErrors []string         `json:"solver_errors,omitempty"`
	Queries     int               `json:"queries"`
	QSat        int               `json:"queries_sat"`
	QUnsat      int               `json:"queries_unsat"`
	SolverTime  float64           `json:"solver_time_s"`
	Wall        float64           `json:"wall_s"`
	LoadTime    float64           `json:"load_s"`
	Solver      string            `json:"solver"`
	Violations  []*exec.Violation `json:"violations"`
	Reached     map[string]int    `json:"reached"`
	Funcs       []FuncInfo        `json:"functions_encoded"`
	SamplePCs   []string          `json:"sample_path_conditions"`
	Samples     []exec.PathSample `json:"sample_paths"`
	Params      map[string]int    `json:"params"`
	Terms       int               `json:"terms"`
	Fallbacks   int               `json:"fallback_queries"`
	QuerySites  map[string]int    `json:"query_sites,omitempty"`
}

type Job struct {
	ID        string         `json:"id"`
	Entry     string         `json:"entry"`
	Params    map[string]int `json:"params"`
	Flags     map[string]int `json:"flags"`
	Solver    string         `json:"solver"`
	Out       string         `json:"out"`
	Stubs     map[string]string `json:"stubs"`
}

type JobFile struct {
	Dir      string            `json:"dir"`
	Pkgs     []string          `json:"pkgs"`
	Overlays map[string]string `json:"overlays"`
	Jobs     []Job             `json:"jobs"`
	Parallel int               `json:"parallel"`
}

func flagOr(j *Job, name string, def int) int {
	if v, ok := j.Flags[name]; ok {
		return v
	}
	return def
}

func main() {
	jobsPath := flag.String("jobs", "", "job file (JSON)")
	verbose := flag.Bool("v", false, "verbose")
	dumpSMT := flag.String("dump-smt", "", "directory for solver input dumps")
	flag.Parse()
	start := time.Now()
	var jf JobFile
	b, err := os.ReadFile(*jobsPath)
	if err != nil {
		fatal("jobs: %v", err)
	}
	if err := json.Unmarshal(b, &jf); err != nil {
		fatal("jobs: %v", err)
	}
	ov := map[string][]byte{}
	for v, r := range jf.Overlays {
		b, err := os.ReadFile(r)
		if err != nil {
			fatal("overlay: %v", err)
		}
		ov[v] = b
	}
	cfg := &packages.Config{Mode: packages.LoadAllSyntax, Dir: jf.Dir, Overlay: ov, Env: append(os.Environ(), "GOFLAGS=-mod=mod", "GOPROXY=off", "GOSUMDB=off")}
	pkgs, err := packages.Load(cfg, jf.Pkgs...)
	if err != nil {
		fatal("load: %v", err)
	}
	nerr := 0
	packages.Visit(pkgs, nil, func(p *packages.Package) {
		for _, e := range p.Errors {
			if strings.HasPrefix(p.PkgPath, "github.com/biogo/hts") {
				fmt.Fprintf(os.Stderr, "load error: %s: %v\n", p.PkgPath, e)
				nerr++
			}
		}
	})
	if nerr > 0 {
		fatal("package errors (harness does not compile against the current tree)")
	}
	prog, spkgs := ssautil.AllPackages(pkgs, ssa.InstantiateGenerics)
	prog.Build()
	loadT := time.Since(start).Seconds()
	fmt.Fprintf(os.Stderr, "loaded %d packages in %.1fs\n", len(prog.AllPackages()), loadT)
	par := jf.Parallel
	if par <= 0 {
		par = 8
	}
	sem := make(chan struct{}, par)
	var wg sync.WaitGroup
	for i := range jf.Jobs {
		j := &jf.Jobs[i]
		var fn *ssa.Function
		for _, sp := range spkgs {
			if sp != nil {
				if f := sp.Func(j.Entry); f != nil {
					fn = f
				}
			}
		}
		if fn == nil {
			fatal("harness %s not found", j.Entry)
		}
		wg.Add(1)
		go func() {
			defer wg.Done()
			sem <- struct{}{}
			defer func() { <-sem }()
			runJob(prog, fn, j, &jf, ov, loadT, *verbose, *dumpSMT)
		}()
	}
	wg.Wait()
}

func runJob(prog *ssa.Program, fn *ssa.Function, j *Job, jf *JobFile, ov map[string][]byte, loadT float64, verbose bool, dumpDir string) {
	start := time.Now()
	solver := j.Solver
	if solver == "" {
		solver = "cvc5"
	}
	ctx := sym.NewCtx()
	sv, err := sym.NewSolver(ctx, solver, flagOr(j, "timeout-ms", 30000))
	if err != nil {
		fatal("solver: %v", err)
	}
	defer sv.Close()
	if dumpDir != "" {
		f, _ := os.Create(filepath.Join(dumpDir, j.ID+".smt2"))
		defer f.Close()
		sv.Dump = f
	}
	pm := j.Params
	if pm == nil {
		pm = map[string]int{}
	}
	ecfg := exec.Config{MaxSteps: flagOr(j, "max-steps", 2000000), MaxVisits: flagOr(j, "unwind", 64), MaxPaths: flagOr(j, "max-paths", 500000),
		MaxDepth: flagOr(j, "max-depth", 64), AllocLimit: flagOr(j, "alloc-limit", 64), Params: pm, Preempt: flagOr(j, "preempt", 2), Verbose: verbose, Progress: flagOr(j, "progress", 20), MaxViolations: flagOr(j, "max-violations", 0), PerSite: flagOr(j, "per-site", 1), EagerChecks: flagOr(j, "lazy-checks", 0) == 0, Profile: flagOr(j, "profile", 0) == 1, ConcIndex: flagOr(j, "conc-index", 0) == 1, UnwindIsHang: flagOr(j, "unwind-is-hang", 0) == 1, Stubs: j.Stubs}
	if b := flagOr(j, "budget-s", 0); b > 0 {
		ecfg.Deadline = time.Now().Add(time.Duration(b) * time.Second)
	}
	for _, fb := range []string{"z3-new", "cvc5", "z3"} {
		if fb != solver {
			ecfg.Fallback = append(ecfg.Fallback, fb)
		}
	}
	ecfg.FallbackTimeoutMs = flagOr(j, "fallback-timeout-ms", 120000)
	ecfg.DetForced = flagOr(j, "det-sched", 0) == 1
	m := exec.NewMachine(prog, ctx, sv, ecfg)
	defer m.Close()
	oc := m.Explore(fn)

	res := &Result{Harness: j.ID, Pkg: fn.Pkg.Pkg.Path(), Complete: oc.Complete, Reason: oc.Reason, Paths: m.Stats.Paths, Completed: m.Stats.Completed,
		Steps: m.Stats.Steps, Decisions: m.Stats.Decisions, Checks: m.Stats.Checks, AssumeKilled: m.Stats.AssumeKilled,
		OverLimit: m.Stats.OverLimit, UnwindHits: m.Stats.UnwindHits, Unknowns: m.Stats.Unknowns, Unsupported: m.Stats.Unsupported,
		EngineErrors: m.Stats.EngineErrors, SolverErrors: sv.Errors, Queries: sv.Queries, QSat: sv.NSat, QUnsat: sv.NUnsat,
		SolverTime: sv.Time.Seconds(), Solver: solver, Violations: m.Violations, Reached: m.Reached, SamplePCs: m.SamplePCs, Samples: m.Samples,
		Params: pm, LoadTime: loadT, Terms: ctx.NumTerms(), Fallbacks: m.FallbackQueries, QuerySites: m.QuerySites}
	if res.Violations == nil {
		res.Violations = []*exec.Violation{}
	}
	// functions encoded, with source hashes
	hashes := map[string]string{}
	for f, n := range m.FuncsRun {
		fi := FuncInfo{Name: f.String(), Calls: n}
		if f.Pos().IsValid() {
			file := prog.Fset.Position(f.Pos()).Filename
			if strings.HasPrefix(file, jf.Dir+"/") {
				fi.File = file
				if h, ok := hashes[file]; ok {
					fi.SHA = h
				} else {
					var b []byte
					if ob, ok := ov[file]; ok {
						b = ob
					} else {
						b, _ = os.ReadFile(file)
					}
					s := sha256.Sum256(b)
					fi.SHA = hex.EncodeToString(s[:])
					hashes[file] = fi.SHA
				}
			} else {
				fi.File = filepath.Base(filepath.Dir(file)) + "/" + filepath.Base(file)
			}
		}
		res.Funcs = append(res.Funcs, fi)
	}
	sort.Slice(res.Funcs, func(i, j int) bool { return res.Funcs[i].Name < res.Funcs[j].Name })
	res.Wall = time.Since(start).Seconds()
	b, _ := json.MarshalIndent(res, "", " ")
	if j.Out != "" {
		os.WriteFile(j.Out, b, 0o644)
	} else {
		os.Stdout.Write(b)
		fmt.Println()
	}
	fmt.Fprintf(os.Stderr, "%s: complete=%v paths=%d steps=%d queries=%d (sat %d unsat %d unknown %d) solver=%.2fs wall=%.2fs violations=%d unsupported=%d engine_errors=%d %s\n",
		j.ID, oc.Complete, m.Stats.Paths, m.Stats.Steps, sv.Queries, sv.NSat, sv.NUnsat, sv.NUnknown, sv.Time.Seconds(), res.Wall,
		len(m.Violations), len(m.Stats.Unsupported), len(m.Stats.EngineErrors), oc.Reason)
}

func fatal(format string, args ...interface{}) {
	fmt.Fprintf(os.Stderr, "gosym: "+format+"\n", args...)
	os.Exit(2)
}
