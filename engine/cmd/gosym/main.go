// gosym: symbolic execution of Go SSA harnesses against /repo's current tree.
package main

import (
	"crypto/sha256"
	"encoding/hex"
	"encoding/json"
	"flag"
	"fmt"
	"os"
	"path/filepath"
	"sort"
	"strconv"
	"strings"
	"time"

	"gosym/exec"
	"gosym/sym"

	"golang.org/x/tools/go/packages"
	"golang.org/x/tools/go/ssa"
	"golang.org/x/tools/go/ssa/ssautil"
)

type multiFlag []string

func (f *multiFlag) String() string     { return strings.Join(*f, ",") }
func (f *multiFlag) Set(s string) error { *f = append(*f, s); return nil }

type FuncInfo struct {
	Name  string `json:"name"`
	File  string `json:"file,omitempty"`
	SHA   string `json:"sha256,omitempty"`
	Calls int64  `json:"calls"`
}

type Result struct {
	Harness     string            `json:"harness"`
	Pkg         string            `json:"pkg"`
	Complete    bool              `json:"complete"`
	Reason      string            `json:"reason,omitempty"`
	Paths       int               `json:"paths"`
	Completed   int               `json:"paths_completed"`
	Steps       int64             `json:"ssa_instructions"`
	Decisions   int               `json:"decisions"`
	Checks      int               `json:"vc_checks"`
	AssumeKilled int              `json:"assume_killed"`
	OverLimit   int               `json:"alloc_over_limit"`
	UnwindHits  int               `json:"unwind_hits"`
	Unknowns    int               `json:"solver_unknown"`
	Unsupported map[string]int    `json:"unsupported,omitempty"`
	EngineErrors []string         `json:"engine_errors,omitempty"`
	SolverErrors []string         `json:"solver_errors,omitempty"`
	Queries     int               `json:"queries"`
	QSat        int               `json:"queries_sat"`
	QUnsat      int               `json:"queries_unsat"`
	SolverTime  float64           `json:"solver_time_s"`
	Wall        float64           `json:"wall_s"`
	LoadTime    float64           `json:"load_s"`
	Solver      string            `json:"solver"`
	Violations  []*exec.Violation `json:"violations"`
	Reached     map[string]int    `json:"reached"`
	Funcs       []FuncInfo        `json:"functions_encoded"`
	SamplePCs   []string          `json:"sample_path_conditions"`
	Params      map[string]int    `json:"params"`
	Terms       int               `json:"terms"`
}

func main() {
	var (
		dir      = flag.String("dir", "/repo", "repository root")
		pkgPat   = flag.String("pkg", "", "package pattern of the harness package (e.g. ./cram/encoding/itf8)")
		entry    = flag.String("entry", "", "harness function name")
		out      = flag.String("out", "", "result JSON path")
		solver   = flag.String("solver", "z3", "z3 | z3-new | cvc5")
		timeout  = flag.Int("timeout-ms", 60000, "per-query solver timeout")
		maxSteps = flag.Int("max-steps", 2000000, "per-path step bound")
		maxVisit = flag.Int("unwind", 64, "per-frame loop-header visit bound")
		maxPaths = flag.Int("max-paths", 200000, "path bound")
		maxDepth = flag.Int("max-depth", 64, "call depth bound")
		allocLim = flag.Int("alloc-limit", 64, "limit for symbolic allocation sizes")
		preempt  = flag.Int("preempt", 2, "pre-emption bound")
		budget   = flag.Int("budget-s", 0, "wall-clock budget for exploration (0 = none)")
		verbose  = flag.Bool("v", false, "verbose")
		dumpSMT  = flag.String("dump-smt", "", "write all solver input to this file")
		overlays multiFlag
		params   multiFlag
	)
	flag.Var(&overlays, "overlay", "virtual=real file mapping (repeatable)")
	flag.Var(&params, "param", "name=int (repeatable)")
	flag.Parse()
	start := time.Now()

	ov := map[string][]byte{}
	for _, o := range overlays {
		kv := strings.SplitN(o, "=", 2)
		if len(kv) != 2 {
			fatal("bad -overlay %q", o)
		}
		b, err := os.ReadFile(kv[1])
		if err != nil {
			fatal("overlay: %v", err)
		}
		ov[kv[0]] = b
	}
	pm := map[string]int{}
	for _, p := range params {
		kv := strings.SplitN(p, "=", 2)
		v, err := strconv.Atoi(kv[1])
		if err != nil {
			fatal("bad -param %q", p)
		}
		pm[kv[0]] = v
	}

	cfg := &packages.Config{Mode: packages.LoadAllSyntax, Dir: *dir, Overlay: ov, Env: append(os.Environ(), "GOFLAGS=-mod=mod", "GOPROXY=off", "GOSUMDB=off")}
	pkgs, err := packages.Load(cfg, *pkgPat)
	if err != nil {
		fatal("load: %v", err)
	}
	nerr := 0
	packages.Visit(pkgs, nil, func(p *packages.Package) {
		for _, e := range p.Errors {
			if strings.HasPrefix(p.PkgPath, "github.com/biogo/hts") {
				fmt.Fprintf(os.Stderr, "load error: %s: %v\n", p.PkgPath, e)
				nerr++
			}
		}
	})
	if nerr > 0 {
		fatal("package errors (harness does not compile against the current tree)")
	}
	prog, spkgs := ssautil.AllPackages(pkgs, ssa.InstantiateGenerics)
	prog.Build()
	loadT := time.Since(start).Seconds()
	var fn *ssa.Function
	for _, sp := range spkgs {
		if sp != nil {
			if f := sp.Func(*entry); f != nil {
				fn = f
			}
		}
	}
	if fn == nil {
		fatal("harness %s not found in %s", *entry, *pkgPat)
	}

	ctx := sym.NewCtx()
	sv, err := sym.NewSolver(ctx, *solver, *timeout)
	if err != nil {
		fatal("solver: %v", err)
	}
	defer sv.Close()
	if *dumpSMT != "" {
		f, _ := os.Create(*dumpSMT)
		defer f.Close()
		sv.Dump = f
	}
	ecfg := exec.Config{MaxSteps: *maxSteps, MaxVisits: *maxVisit, MaxPaths: *maxPaths, MaxDepth: *maxDepth,
		AllocLimit: *allocLim, Params: pm, Preempt: *preempt, Verbose: *verbose}
	if *budget > 0 {
		ecfg.Deadline = time.Now().Add(time.Duration(*budget) * time.Second)
	}
	m := exec.NewMachine(prog, ctx, sv, ecfg)
	oc := m.Explore(fn)

	res := &Result{Harness: *entry, Pkg: *pkgPat, Complete: oc.Complete, Reason: oc.Reason, Paths: m.Stats.Paths, Completed: m.Stats.Completed,
		Steps: m.Stats.Steps, Decisions: m.Stats.Decisions, Checks: m.Stats.Checks, AssumeKilled: m.Stats.AssumeKilled,
		OverLimit: m.Stats.OverLimit, UnwindHits: m.Stats.UnwindHits, Unknowns: m.Stats.Unknowns, Unsupported: m.Stats.Unsupported,
		EngineErrors: m.Stats.EngineErrors, SolverErrors: sv.Errors, Queries: sv.Queries, QSat: sv.NSat, QUnsat: sv.NUnsat,
		SolverTime: sv.Time.Seconds(), Solver: *solver, Violations: m.Violations, Reached: m.Reached, SamplePCs: m.SamplePCs,
		Params: pm, LoadTime: loadT, Terms: ctx.NumTerms()}
	if res.Violations == nil {
		res.Violations = []*exec.Violation{}
	}
	// functions encoded, with source hashes
	hashes := map[string]string{}
	for f, n := range m.FuncsRun {
		fi := FuncInfo{Name: f.String(), Calls: n}
		if f.Pos().IsValid() {
			file := prog.Fset.Position(f.Pos()).Filename
			if strings.HasPrefix(file, *dir+"/") {
				fi.File = file
				if h, ok := hashes[file]; ok {
					fi.SHA = h
				} else {
					var b []byte
					if ob, ok := ov[file]; ok {
						b = ob
					} else {
						b, _ = os.ReadFile(file)
					}
					s := sha256.Sum256(b)
					fi.SHA = hex.EncodeToString(s[:])
					hashes[file] = fi.SHA
				}
			} else {
				fi.File = filepath.Base(filepath.Dir(file)) + "/" + filepath.Base(file)
			}
		}
		res.Funcs = append(res.Funcs, fi)
	}
	sort.Slice(res.Funcs, func(i, j int) bool { return res.Funcs[i].Name < res.Funcs[j].Name })
	res.Wall = time.Since(start).Seconds()
	b, _ := json.MarshalIndent(res, "", " ")
	if *out != "" {
		os.WriteFile(*out, b, 0o644)
	} else {
		os.Stdout.Write(b)
		fmt.Println()
	}
	fmt.Fprintf(os.Stderr, "%s: complete=%v paths=%d steps=%d queries=%d (sat %d unsat %d unknown %d) solver=%.2fs wall=%.2fs violations=%d unsupported=%d engine_errors=%d %s\n",
		*entry, oc.Complete, m.Stats.Paths, m.Stats.Steps, sv.Queries, sv.NSat, sv.NUnsat, sv.NUnknown, sv.Time.Seconds(), res.Wall,
		len(m.Violations), len(m.Stats.Unsupported), len(m.Stats.EngineErrors), oc.Reason)
}

func fatal(format string, args ...interface{}) {
	fmt.Fprintf(os.Stderr, "gosym: "+format+"\n", args...)
	os.Exit(2)
}
