package fai

import (
	"bytes"
	"io"

	"github.com/biogo/hts/internal/vrt"
)

// verifFile is an io.ReaderAt over an abstract FASTA record layout: the byte at
// offset Start + l*BytesPerLine + c is base l*BasesPerLine+c for c < BasesPerLine
// and a line terminator otherwise. Bytes outside the record are 0xFE.
type verifFile struct {
	rec Record
	seq []byte
}

func (f *verifFile) at(off int64) byte {
	rel := off - f.rec.Start
	if rel < 0 {
		return 0xFE
	}
	line := rel / int64(f.rec.BytesPerLine)
	col := rel % int64(f.rec.BytesPerLine)
	if col >= int64(f.rec.BasesPerLine) {
		return '\n'
	}
	i := line*int64(f.rec.BasesPerLine) + col
	if i >= int64(f.rec.Length) {
		return 0xFE
	}
	return f.seq[i]
}

func (f *verifFile) ReadAt(p []byte, off int64) (int, error) {
	for i := range p {
		p[i] = f.at(off + int64(i))
	}
	return len(p), nil
}

// C19-H-read: Seq.Read returns exactly bases [start,end) and then io.EOF, for
// every record geometry within the bounds and every sequence of buffer sizes.
func VerifH_fai_seq_read() {
	LMAX := vrt.Param("LMAX", 12)
	bpl := 1 + vrt.Choice("basesPerLine", vrt.Param("BPL", 4))
	term := 1 + vrt.Choice("terminator", 2)
	rec := Record{Name: "s", BasesPerLine: bpl, BytesPerLine: bpl + term}
	rec.Length = vrt.Int("length")
	rec.Start = vrt.Int64("startOffset")
	vrt.Assume(rec.Length >= 1)
	vrt.Assume(rec.Length <= LMAX)
	vrt.Assume(rec.Start >= 0)
	vrt.Assume(rec.Start < 1<<40)
	seq := vrt.Bytes("seq", LMAX)
	f := NewFile(&verifFile{rec: rec, seq: seq}, Index{"s": rec})
	start := vrt.Int("start")
	end := vrt.Int("end")
	vrt.Assume(0 <= start)
	vrt.Assume(start <= end)
	vrt.Assume(end <= rec.Length)
	s, err := f.SeqRange("s", start, end)
	vrt.Assert(err == nil, "SeqRange-in-range-ok")
	var out []byte
	eof := false
	for calls := 0; calls < LMAX+2 && !eof; calls++ {
		buf := make([]byte, 1+vrt.Choice("bufsize", vrt.Param("BUF", 3)))
		n, err := s.Read(buf)
		vrt.Assert(n >= 0 && n <= len(buf), "n-in-range")
		out = append(out, buf[:n]...)
		if err != nil {
			vrt.Assert(err == io.EOF, "only-EOF-error")
			eof = true
		} else {
			vrt.Assert(n > 0, "progress-without-error")
		}
	}
	vrt.Assert(eof, "EOF-reached")
	vrt.Assert(len(out) == end-start, "length==end-start")
	ok := true
	for k := range out {
		ok = vrt.And(ok, out[k] == seq[start+k])
	}
	vrt.Assert(ok, "bases-match")
	vrt.Reach("end")
}

// verifFasta builds FASTA text from shape parameters; base letters are symbolic
// (non-space, not '>'), everything else is chosen by the explored shape.
type verifShape struct {
	name      string
	width     int
	fullLines int
	lastLen   int // 0 = no partial last line
	seq       []byte
	start     int64
	bytesPL   int
}

func verifFasta() ([]byte, []*verifShape) {
	N := 1 + vrt.Choice("nrec", vrt.Param("N", 2))
	crlf := vrt.Choice("crlf", 2) == 1
	finalNL := vrt.Choice("finalNewline", 2) == 1
	var text []byte
	nl := func() {
		if crlf {
			text = append(text, '\r')
		}
		text = append(text, '\n')
	}
	names := []string{"a", "bb"}
	shapes := make([]*verifShape, N)
	for r := 0; r < N; r++ {
		sh := &verifShape{name: names[r]}
		sh.width = 1 + vrt.Choice("width", vrt.Param("W", 3))
		sh.fullLines = vrt.Choice("fullLines", vrt.Param("FL", 3))
		sh.lastLen = vrt.Choice("lastLen", sh.width)
		if sh.fullLines == 0 && sh.lastLen == 0 {
			sh.lastLen = 1
		}
		total := sh.fullLines*sh.width + sh.lastLen
		// base letters: symbolic over the alphabet ACGT (the text parser's
		// byte tests then fold without solver calls)
		sel := vrt.Bytes("seq", total)
		sh.seq = make([]byte, total)
		for i := range sh.seq {
			sh.seq[i] = "ACGT"[sel[i]&3]
		}
		text = append(text, '>')
		text = append(text, sh.name...)
		if vrt.Choice("description", 2) == 1 {
			text = append(text, " d"...)
		}
		nl()
		sh.start = int64(len(text))
		sh.bytesPL = sh.width + 1
		if crlf {
			sh.bytesPL++
		}
		k := 0
		for l := 0; l < sh.fullLines; l++ {
			text = append(text, sh.seq[k:k+sh.width]...)
			k += sh.width
			if l < sh.fullLines-1 || sh.lastLen > 0 || r < N-1 || finalNL {
				nl()
			}
		}
		if sh.lastLen > 0 {
			text = append(text, sh.seq[k:]...)
			if r < N-1 || finalNL {
				nl()
			}
		}
		if r < N-1 && vrt.Choice("blankLine", 2) == 1 {
			nl()
		}
		shapes[r] = sh
	}
	return text, shapes
}

// C19-H-index: NewIndex records each sequence's true length and layout, and
// File returns exactly the requested bases from the real text.
func VerifH_fai_new_index() {
	text, shapes := verifFasta()
	idx, err := NewIndex(bytes.NewReader(text))
	vrt.Assert(err == nil, "NewIndex-well-formed-ok")
	vrt.Assert(len(idx) == len(shapes), "one-record-per-sequence")
	for _, sh := range shapes {
		rec, ok := idx[sh.name]
		vrt.Assert(ok, "record-present")
		vrt.Assert(rec.Name == sh.name, "name")
		vrt.Assert(rec.Length == len(sh.seq), "length")
		vrt.Assert(rec.Start == sh.start, "start-offset")
		if sh.fullLines > 0 {
			vrt.Assert(rec.BasesPerLine == sh.width, "bases-per-line")
		}
	}
	// read a range of one sequence through File over the real bytes
	which := vrt.Choice("which", len(shapes))
	sh := shapes[which]
	f := NewFile(bytes.NewReader(text), idx)
	start := vrt.Choice("start", len(sh.seq)+1)
	end := start + vrt.Choice("len", len(sh.seq)-start+1)
	s, err := f.SeqRange(sh.name, start, end)
	vrt.Assert(err == nil, "SeqRange-in-range-ok")
	var out []byte
	eof := false
	for calls := 0; calls < len(sh.seq)+2 && !eof; calls++ {
		buf := make([]byte, 1+vrt.Choice("bufsize", vrt.Param("BUF", 3)))
		n, err := s.Read(buf)
		out = append(out, buf[:n]...)
		if err != nil {
			vrt.Assert(err == io.EOF, "only-EOF-error")
			eof = true
		} else {
			vrt.Assert(n > 0, "progress-without-error")
		}
	}
	vrt.Assert(eof, "EOF-reached")
	vrt.Assert(len(out) == end-start, "length==end-start")
	ok := true
	for k := range out {
		ok = vrt.And(ok, out[k] == sh.seq[start+k])
	}
	vrt.Assert(ok, "bases-match")
	vrt.Reach("end")
}

// C11: fai.NewIndex over arbitrary bytes from a small alphabet, then the accessors.
func VerifH_total_fai_newindex() {
	vrt.LenientFmt(true)
	N := vrt.Param("FAILEN", 6)
	sel := vrt.Bytes("text", N)
	n := vrt.Int("len")
	vrt.Assume(n >= 0)
	vrt.Assume(n <= N)
	text := make([]byte, N)
	for i := range text {
		text[i] = ">\n\r aA\t>"[sel[i]&7]
	}
	idx, err := NewIndex(bytes.NewReader(text[:n]))
	if err != nil {
		vrt.Reach("error")
		return
	}
	f := NewFile(bytes.NewReader(text[:n]), idx)
	for name, rec := range idx {
		s, err := f.Seq(name)
		if err == nil {
			buf := make([]byte, 2)
			for i := 0; i < N+1; i++ {
				if _, err := s.Read(buf); err != nil {
					break
				}
			}
		}
		if rec.Length > 0 {
			_ = rec.Position(0)
		}
		_, _ = f.SeqRange(name, 0, rec.Length)
	}
	var out bytes.Buffer
	_ = WriteTo(&out, idx)
	vrt.Reach("ok")
}
