package itf8

import "github.com/biogo/hts/internal/vrt"

// C20-H1: round trip over all int32 values (one symbolic value, no bound).
func VerifH_itf8_roundtrip() {
	v := vrt.Int32("v")
	var b [5]byte
	n := Encode(b[:], v)
	vrt.Assert(n == Len(v), "n==Len")
	d, m, ok := Decode(b[:n])
	vrt.Assert(ok, "decode-ok")
	vrt.Assert(m == n, "decode-n")
	vrt.Assert(d == v, "roundtrip-value")
	vrt.Reach("end")
}

// specITF8 is written from CRAM v3 section 2.3: the number of leading one bits
// of the first byte is the number of following bytes; payload big-endian; in
// the five byte form the last byte carries the low 4 bits in its low nibble.
func specITF8(u uint32) (out [5]byte, n int) {
	switch {
	case u>>7 == 0:
		out[0] = byte(u)
		n = 1
	case u>>14 == 0:
		out[0] = 0x80 | byte(u>>8)
		out[1] = byte(u & 0xff)
		n = 2
	case u>>21 == 0:
		out[0] = 0xc0 | byte(u>>16)
		out[1] = byte((u >> 8) & 0xff)
		out[2] = byte(u & 0xff)
		n = 3
	case u>>28 == 0:
		out[0] = 0xe0 | byte(u>>24)
		out[1] = byte((u >> 16) & 0xff)
		out[2] = byte((u >> 8) & 0xff)
		out[3] = byte(u & 0xff)
		n = 4
	default:
		out[0] = 0xf0 | byte(u>>28)
		out[1] = byte((u >> 20) & 0xff)
		out[2] = byte((u >> 12) & 0xff)
		out[3] = byte((u >> 4) & 0xff)
		out[4] = byte(u & 0x0f)
		n = 5
	}
	return
}

// C20-H2: the bytes written equal the specification's encoding.
func VerifH_itf8_specbytes() {
	v := vrt.Int32("v")
	var b [5]byte
	n := Encode(b[:], v)
	want, wn := specITF8(uint32(v))
	vrt.Assert(n == wn, "spec-length")
	for i := 0; i < wn; i++ {
		if i == 4 {
			// only the low nibble of the fifth byte is specified
			vrt.Assert(b[4]&0x0f == want[4]&0x0f, "spec-byte4-low-nibble")
		} else {
			vrt.Assert(b[i] == want[i], "spec-byte")
		}
	}
	// the spec decoder of the spec bytes is the library decoder's answer too
	d, m, ok := Decode(want[:wn])
	vrt.Assert(ok, "spec-decode-ok")
	vrt.Assert(m == wn, "spec-decode-n")
	vrt.Assert(d == v, "spec-decode-value")
	vrt.Reach("end")
}

// C20-H3: decoding any byte string: announced length from the first byte only,
// failure exactly when fewer bytes are available, nothing beyond n is read.
func VerifH_itf8_decode_total() {
	buf := vrt.Bytes("b", 9)
	l := vrt.Int("len")
	vrt.Assume(0 <= l)
	vrt.Assume(l <= 9)
	v, n, ok := Decode(buf[:l])
	if l == 0 {
		vrt.Assert(n == 0, "empty-n")
		vrt.Assert(!ok, "empty-ok")
		vrt.Assert(v == 0, "empty-v")
		vrt.Reach("empty")
		return
	}
	want := 1
	b0 := buf[0]
	if b0&0x80 != 0 {
		want = 2
		if b0&0x40 != 0 {
			want = 3
			if b0&0x20 != 0 {
				want = 4
				if b0&0x10 != 0 {
					want = 5
				}
			}
		}
	}
	vrt.Assert(n == want, "announced-length")
	vrt.Assert(ok == (l >= n), "ok-iff-enough-bytes")
	if ok {
		v2, n2, ok2 := Decode(buf[:n])
		vrt.Assert(ok2, "prefix-ok")
		vrt.Assert(n2 == n, "prefix-n")
		vrt.Assert(v2 == v, "no-read-beyond-n")
		// and the value re-encodes to a string that decodes to the same value
		var e [5]byte
		k := Encode(e[:], v)
		v3, _, ok3 := Decode(e[:k])
		vrt.Assert(ok3, "reencode-ok")
		vrt.Assert(v3 == v, "reencode-value")
		vrt.Reach("ok")
	} else {
		vrt.Assert(v == 0, "fail-value-zero")
		vrt.Reach("short")
	}
}
