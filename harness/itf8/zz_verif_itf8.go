package itf8

import "github.com/biogo/hts/internal/vrt"

// C20-H1: round trip over all int32 values.
func VerifH_itf8_roundtrip() {
	v := vrt.Int32("v")
	var b [5]byte
	n := Encode(b[:], v)
	vrt.Assert(n == Len(v), "n==Len")
	d, m, ok := Decode(b[:n])
	vrt.Assert(ok, "decode-ok")
	vrt.Assert(m == n, "decode-n")
	vrt.Assert(d == v, "roundtrip-value")
	vrt.Reach("end")
}
