package bgzf

import (
	"compress/gzip"
	"io"
)

// VerifBlock is a light test double for Block (Block has unexported methods,
// so it cannot be written outside this package). It carries only the state the
// caches look at: base, next base and the used flag.
type VerifBlock struct {
	BaseOff int64
	Next    int64
	IsUsed  bool
	ID      int
	own     *Reader
}

// VerifNewBlock manufactures a Block with the chosen base, next base and used flag.
func VerifNewBlock(id int, base, next int64, used bool) *VerifBlock {
	return &VerifBlock{ID: id, BaseOff: base, Next: next, IsUsed: used}
}

func (b *VerifBlock) Base() int64                  { return b.BaseOff }
func (b *VerifBlock) Read(p []byte) (int, error)   { return 0, io.EOF }
func (b *VerifBlock) ReadByte() (byte, error)      { return 0, io.EOF }
func (b *VerifBlock) Used() bool                   { return b.IsUsed }
func (b *VerifBlock) header() gzip.Header          { return gzip.Header{} }
func (b *VerifBlock) isMagicBlock() bool           { return false }
func (b *VerifBlock) ownedBy(r *Reader) bool       { return b.own == r }
func (b *VerifBlock) setOwner(r *Reader)           { b.own = r }
func (b *VerifBlock) hasData() bool                { return true }
func (b *VerifBlock) seek(offset int64) error      { return nil }
func (b *VerifBlock) readFrom(io.ReadCloser) error { return nil }
func (b *VerifBlock) len() int                     { return 0 }
func (b *VerifBlock) setBase(n int64)              { b.BaseOff = n }
func (b *VerifBlock) NextBase() int64              { return b.Next }
func (b *VerifBlock) setHeader(gzip.Header)        {}
func (b *VerifBlock) txOffset() Offset             { return Offset{} }
