package bgzf

import "io"

// Flat byte-stream stand-ins for the BGZF layer, used (through the executor's
// stub table) by harnesses whose subject is the BAM record codec above it:
// Writer.Write passes the bytes to the underlying writer unchanged and
// Reader.Read reads them back from the underlying reader. C01/C02 are about
// the layer that is bypassed here.
type verifFlat struct {
	w io.Writer
	r io.Reader
}

var (
	verifFlatWriters = map[*Writer]*verifFlat{}
	verifFlatReaders = map[*Reader]*verifFlat{}
)

func verifStubNewWriterLevel(w io.Writer, level, wc int) (*Writer, error) {
	bw := &Writer{}
	verifFlatWriters[bw] = &verifFlat{w: w}
	return bw, nil
}

func verifStubWriterWrite(bg *Writer, b []byte) (int, error) { return verifFlatWriters[bg].w.Write(b) }
func verifStubWriterFlush(bg *Writer) error                  { return nil }
func verifStubWriterWait(bg *Writer) error                   { return nil }
func verifStubWriterClose(bg *Writer) error                  { return nil }

func verifStubNewReader(r io.Reader, rd int) (*Reader, error) {
	br := &Reader{}
	verifFlatReaders[br] = &verifFlat{r: r}
	return br, nil
}

func verifStubReaderRead(bg *Reader, p []byte) (int, error) { return verifFlatReaders[bg].r.Read(p) }
func verifStubReaderBegin(bg *Reader) Tx                    { return Tx{} }
func verifStubTxEnd(t *Tx) Chunk                            { return Chunk{} }
func verifStubReaderLastChunk(bg *Reader) Chunk             { return Chunk{} }
func verifStubReaderClose(bg *Reader) error                 { return nil }
