package bgzf

import (
	"bytes"
	"io"

	"github.com/biogo/hts/internal/vrt"
)

// C09 (writer): the underlying writer starts failing at a chosen call (after
// accepting a chosen prefix of that call's bytes). Every API call must return
// (the executor reports a state in which no goroutine can run as a deadlock),
// the failure must surface from Close, and once any call has reported it every
// later Write/Flush/Wait reports it too; after Close no library goroutine is left.
func VerifH_bgzf_writer_faults() {
	wc := vrt.Param("wc", 1)
	sink := &verifSink{}
	sink.failAt = vrt.Choice("failAt", vrt.Param("FAILS", 3))
	sink.partial = vrt.Choice("partial", 2)
	w := NewWriter(sink, wc)
	CALLS := vrt.Param("CALLS", 3)
	MAXW := vrt.Param("MAXW", 2*BlockSize+2)
	ncalls := vrt.Choice("ncalls", CALLS+1)
	seen := false
	for i := 0; i < ncalls; i++ {
		var err error
		switch vrt.Choice("call", 3) {
		case 0:
			n := verifLen("wlen", MAXW)
			_, err = w.Write(vrt.Bytes("payload", n))
		case 1:
			err = w.Flush()
		case 2:
			err = w.Wait()
		}
		if seen {
			vrt.Assert(err != nil, "error-is-sticky-for-later-calls")
		}
		if err != nil {
			seen = true
		}
	}
	err := w.Close()
	if sink.writes > sink.failAt {
		vrt.Assert(err != nil, "Close-reports-the-sink-failure")
	}
	if seen {
		vrt.Assert(err != nil, "Close-reports-an-error-seen-earlier")
	}
	if err == nil {
		// nothing failed: the stream must be complete and marked
		vrt.Assert(len(sink.data) >= len(magicBlock) && bytes.Equal(sink.data[len(sink.data)-len(magicBlock):], []byte(magicBlock)), "clean-close-writes-marker")
	} else {
		has := len(sink.data) >= len(magicBlock) && bytes.Equal(sink.data[len(sink.data)-len(magicBlock):], []byte(magicBlock))
		_ = has
	}
	vrt.Assert(vrt.LiveTasks() == 0, "no-goroutine-left-after-Close")
	vrt.Reach("end")
}

// verifFaultySource fails a chosen Read call of the underlying reader.
type verifFaultySource struct {
	data   []byte
	pos    int
	reads  int
	failAt int
}

var verifErrSource = io.ErrNoProgress

func (s *verifFaultySource) Read(p []byte) (int, error) {
	i := s.reads
	s.reads++
	if s.failAt >= 0 && i >= s.failAt {
		return 0, verifErrSource
	}
	if s.pos >= len(s.data) {
		return 0, io.EOF
	}
	n := copy(p, s.data[s.pos:])
	s.pos += n
	return n, nil
}

func (s *verifFaultySource) ReadByte() (byte, error) {
	var b [1]byte
	n, err := s.Read(b[:])
	if n == 1 {
		return b[0], nil
	}
	return 0, err
}

// C09 (reader): the source fails at a chosen Read. Every call returns, bytes
// returned are the correct ones for their position, a clean io.EOF is never
// reported before the true end, and Close leaves no goroutine.
func VerifH_bgzf_reader_faults() {
	rd := vrt.Param("rd", 1)
	var sinkb bytes.Buffer
	w := NewWriter(&sinkb, 1)
	n1 := vrt.Choice("len1", vrt.Param("MAXW", BlockSize+2)+1)
	d1 := vrt.Bytes("payload", n1)
	w.Write(d1)
	w.Flush()
	n2 := vrt.Choice("len2", 3)
	d2 := vrt.Bytes("payload2", n2)
	w.Write(d2)
	vrt.Assert(w.Close() == nil, "writer-close")
	data := append(append([]byte(nil), d1...), d2...)
	src := &verifFaultySource{data: sinkb.Bytes(), failAt: vrt.Choice("failAt", vrt.Param("FAILS", 4))}
	r, err := NewReader(src, rd)
	if err != nil {
		vrt.Assert(err != io.EOF || len(sinkb.Bytes()) == 0, "open-error-not-clean-EOF")
		vrt.Assert(vrt.LiveTasks() == 0, "no-goroutine-left-after-failed-open")
		vrt.Reach("open-failed")
		return
	}
	var got []byte
	var rerr error
	for calls := 0; calls < len(data)+3; calls++ {
		p := make([]byte, 1+vrt.Choice("buflen", 2)*BlockSize)
		n, err := r.Read(p)
		got = append(got, p[:n]...)
		if err != nil {
			rerr = err
			break
		}
	}
	vrt.Assert(rerr != nil, "reading-ends")
	vrt.Assert(len(got) <= len(data) && verifIsPrefix(got, data), "only-correct-bytes-returned")
	if rerr == io.EOF {
		vrt.Assert(len(got) == len(data), "no-clean-EOF-before-the-true-end")
	}
	r.Close()
	vrt.Assert(vrt.LiveTasks() == 0, "no-goroutine-left-after-Close")
	vrt.Reach("end")
}
