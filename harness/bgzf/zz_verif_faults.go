package bgzf

import (
	"bytes"
	"io"

	"github.com/biogo/hts/internal/vrt"
)

// C09 (writer): the underlying writer starts failing at a chosen call (after
// accepting a chosen prefix of that call's bytes). Every API call must return
// (the executor reports a state in which no goroutine can run as a deadlock),
// the failure must surface from Close, and once any call has reported it every
// later Write/Flush/Wait reports it too; after Close no library goroutine is left.
func VerifH_bgzf_writer_faults() {
	wc := vrt.Param("wc", 1)
	sink := &verifSink{}
	sink.failAt = vrt.Choice("failAt", vrt.Param("FAILS", 3))
	sink.partial = vrt.Choice("partial", 2)
	if vrt.Param("TRANSIENT", 0) == 1 {
		sink.once = true // the sink recovers after one failed call
	}
	w := NewWriter(sink, wc)
	CALLS := vrt.Param("CALLS", 3)
	MAXW := vrt.Param("MAXW", 2*BlockSize+2)
	ncalls := vrt.Choice("ncalls", CALLS+1)
	seen := false
	for i := 0; i < ncalls; i++ {
		var err error
		vrt.Jitter() // native replays: vary the spacing of the API calls
		switch vrt.Choice("call", 3) {
		case 0:
			n := verifLen("wlen", MAXW)
			_, err = w.Write(vrt.Bytes("payload", n))
		case 1:
			err = w.Flush()
		case 2:
			err = w.Wait()
		}
		if seen {
			vrt.Assert(err != nil, "error-is-sticky-for-later-calls")
		}
		if err != nil {
			seen = true
		}
	}
	err := w.Close()
	if sink.writes > sink.failAt {
		vrt.Assert(err != nil, "Close-reports-the-sink-failure")
	}
	if seen {
		vrt.Assert(err != nil, "Close-reports-an-error-seen-earlier")
	}
	if err == nil {
		// nothing failed: the stream must be complete and marked
		vrt.Assert(len(sink.data) >= len(magicBlock) && bytes.Equal(sink.data[len(sink.data)-len(magicBlock):], []byte(magicBlock)), "clean-close-writes-marker")
	} else if len(sink.data) >= len(magicBlock) {
		// C08: the stream ends with the EOF marker only if Close returned nil
		vrt.Assert(!bytes.Equal(sink.data[len(sink.data)-len(magicBlock):], []byte(magicBlock)), "no-EOF-marker-after-failed-Close")
	}
	vrt.Assert(vrt.LiveTasks() == 0, "no-goroutine-left-after-Close")
	vrt.Reach("end")
}

// verifFaultySource serves the stream up to a chosen byte position and fails from
// there on (failPos < 0: never). It offers ReadByte when byteSrc is set, so that the
// reader uses it directly instead of wrapping it in a bufio.Reader.
type verifFaultySource struct {
	data    []byte
	pos     int
	failPos int
}

var verifErrSource = io.ErrNoProgress

func (s *verifFaultySource) Read(p []byte) (int, error) {
	end := len(s.data)
	if s.failPos >= 0 && s.failPos < end {
		end = s.failPos
	}
	if s.pos >= end {
		if s.failPos >= 0 && s.pos >= s.failPos {
			return 0, verifErrSource
		}
		return 0, io.EOF
	}
	if len(p) == 0 {
		return 0, nil
	}
	n := copy(p, s.data[s.pos:end])
	s.pos += n
	return n, nil
}

type verifFaultyByteSource struct{ verifFaultySource }

func (s *verifFaultyByteSource) ReadByte() (byte, error) {
	var b [1]byte
	n, err := s.Read(b[:])
	if n == 1 {
		return b[0], nil
	}
	return 0, err
}

// C09 (reader): the source fails at a chosen Read. Every call returns, bytes
// returned are the correct ones for their position, a clean io.EOF is never
// reported before the true end, and Close leaves no goroutine.
func VerifH_bgzf_reader_faults() {
	rd := vrt.Param("rd", 1)
	var sinkb bytes.Buffer
	w := NewWriter(&sinkb, 1)
	n1 := []int{1, BlockSize, BlockSize + 1, 2}[vrt.Choice("len1", vrt.Param("RLENS1", 3))]
	d1 := vrt.Bytes("payload", n1)
	w.Write(d1)
	w.Flush()
	n2 := vrt.Choice("len2", 2)
	d2 := vrt.Bytes("payload2", n2)
	w.Write(d2)
	vrt.Assert(w.Close() == nil, "writer-close")
	data := append(append([]byte(nil), d1...), d2...)
	// the failure position is chosen as (member, offset in member) so that it transfers to
	// the real encoder's member sizes on native replay
	stream := sinkb.Bytes()
	ms, _ := verifWalk(stream)
	bases := []int{0}
	for _, m := range ms {
		bases = append(bases, bases[len(bases)-1]+len(m.raw))
	}
	mi := vrt.Choice("failmember", len(bases)-1)
	o := []int{0, 1, 12, 18, 20, 27}[vrt.Choice("failoffset", 6)]
	vrt.Assume(bases[mi]+o < bases[mi+1])
	fs := verifFaultySource{data: stream, failPos: bases[mi] + o}
	var src io.Reader = &fs
	if vrt.Choice("bytesource", 2) == 1 {
		src = &verifFaultyByteSource{fs}
	}
	r, err := NewReader(src, rd)
	if err != nil {
		vrt.Assert(err != io.EOF || len(sinkb.Bytes()) == 0, "open-error-not-clean-EOF")
		vrt.Assert(vrt.LiveTasks() == 0, "no-goroutine-left-after-failed-open")
		vrt.Reach("open-failed")
		return
	}
	var got []byte
	var rerr error
	buflen := 1 + vrt.Choice("buflen", 2)*BlockSize
	for calls := 0; calls < len(data)+3; calls++ {
		p := make([]byte, buflen)
		n, err := r.Read(p)
		got = append(got, p[:n]...)
		if err != nil {
			rerr = err
			break
		}
	}
	vrt.Assert(rerr != nil, "reading-ends")
	vrt.Assert(len(got) <= len(data) && verifIsPrefix(got, data), "only-correct-bytes-returned")
	if rerr == io.EOF {
		vrt.Assert(len(got) == len(data), "no-clean-EOF-before-the-true-end")
	}
	r.Close()
	vrt.Assert(vrt.LiveTasks() == 0, "no-goroutine-left-after-Close")
	vrt.Reach("end")
}
