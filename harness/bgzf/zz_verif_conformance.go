package bgzf

import (
	"bytes"
	"compress/gzip"
	"io"

	"github.com/biogo/hts/internal/vrt"
)

// verifMember is one gzip member as located by the harness-side walker, which is
// written from RFC 1952 and SAM section 4.1 and is independent of the repository.
type verifMember struct {
	raw     []byte
	payload []byte
	bsize   int // value of the BC subfield
	nBC     int
	ok      bool
}

// verifExpand returns the payload of one member: under the executor the codec
// model's body (tag, payload, check, isize) is parsed here; natively the real
// compress/gzip expands it.
func verifExpand(member []byte, hdrLen int) ([]byte, bool) {
	if !vrt.Symbolic() {
		zr, err := gzip.NewReader(bytes.NewReader(member))
		if err != nil {
			return nil, false
		}
		zr.Multistream(false)
		out, err := io.ReadAll(zr)
		return out, err == nil
	}
	body := member[hdrLen:]
	if len(body) < 10 {
		return nil, false
	}
	tag := int(body[0]) | int(body[1])<<8
	if tag&7 != 3 && tag&7 != 1 {
		return nil, false
	}
	n := tag >> 3
	if len(body) != 2+n+8 {
		return nil, false
	}
	payload := body[2 : 2+n]
	sum := uint32(0)
	for _, b := range payload {
		sum += uint32(b)
	}
	tr := body[2+n:]
	check := uint32(tr[0]) | uint32(tr[1])<<8 | uint32(tr[2])<<16 | uint32(tr[3])<<24
	return payload, check == sum
}

// verifWalk splits a byte stream into members using each member's BC subfield.
func verifWalk(stream []byte) ([]verifMember, bool) {
	var out []verifMember
	for off := 0; off < len(stream); {
		b := stream[off:]
		if len(b) < 18 || b[0] != 0x1f || b[1] != 0x8b || b[2] != 8 || b[3]&4 == 0 {
			return out, false
		}
		flg := b[3]
		xlen := int(b[10]) | int(b[11])<<8
		if len(b) < 12+xlen {
			return out, false
		}
		m := verifMember{bsize: -1}
		for x := b[12 : 12+xlen]; len(x) > 0; {
			if len(x) < 4 {
				return out, false
			}
			slen := int(x[2]) | int(x[3])<<8
			if len(x) < 4+slen {
				return out, false
			}
			if x[0] == 'B' && x[1] == 'C' {
				m.nBC++
				if slen == 2 {
					m.bsize = int(x[4]) | int(x[5])<<8
				}
			}
			x = x[4+slen:]
		}
		if m.nBC != 1 || m.bsize < 0 {
			return out, false
		}
		size := m.bsize + 1
		if len(b) < size {
			return out, false
		}
		hdrLen := 12 + xlen
		if flg&8 != 0 { // FNAME
			for hdrLen < size && b[hdrLen] != 0 {
				hdrLen++
			}
			hdrLen++
		}
		if flg&16 != 0 { // FCOMMENT
			for hdrLen < size && b[hdrLen] != 0 {
				hdrLen++
			}
			hdrLen++
		}
		if hdrLen > size {
			return out, false
		}
		m.raw = b[:size]
		m.payload, m.ok = verifExpand(m.raw, hdrLen)
		if !m.ok {
			return out, false
		}
		isize := int(m.raw[size-4]) | int(m.raw[size-3])<<8 | int(m.raw[size-2])<<16 | int(m.raw[size-1])<<24
		if isize != len(m.payload) {
			return out, false
		}
		out = append(out, m)
		off += size
	}
	return out, true
}

// verifSink is the underlying writer: it records every Write and lets the
// harness observe the bytes delivered so far after each one.
type verifSink struct {
	data    []byte
	writes  int
	failAt  int // index of the Write call that fails (-1: never)
	partial int // bytes accepted by the failing call
	once    bool // only the failAt-th call fails; later calls succeed again
	onWrite func(s *verifSink)
}

var verifErrSink = io.ErrClosedPipe

func (s *verifSink) Write(p []byte) (int, error) {
	vrt.Jitter() // native replays: vary how long the drain goroutine is held up
	i := s.writes
	s.writes++
	if s.failAt >= 0 && i >= s.failAt && (i == s.failAt || !s.once) {
		k := 0
		if i == s.failAt {
			k = s.partial
			if k > len(p) {
				k = len(p)
			}
			s.data = append(s.data, p[:k]...)
		}
		return k, verifErrSink
	}
	s.data = append(s.data, p...)
	if s.onWrite != nil {
		s.onWrite(s)
	}
	return len(p), nil
}

func verifIsPrefix(a, b []byte) bool {
	if len(a) > len(b) {
		return false
	}
	ok := true
	for i := range a {
		ok = vrt.And(ok, a[i] == b[i])
	}
	return ok
}

// verifDecoded concatenates the payloads of all complete members.
func verifDecoded(stream []byte) ([]byte, []verifMember, bool) {
	ms, ok := verifWalk(stream)
	var out []byte
	for _, m := range ms {
		out = append(out, m.payload...)
	}
	return out, ms, ok
}

func verifHeaderSettings(ws ...*Writer) {
	if vrt.Param("hdr", 0) == 0 {
		return
	}
	var name, comment string
	var extra []byte
	if vrt.Choice("name", 2) == 1 {
		c := vrt.Byte("namechar")
		vrt.Assume(c != 0)
		vrt.Assume(c < 0x80) // gzip header strings: ASCII here (Latin-1 conversion is compress/gzip's)
		name = string([]byte{c})
	}
	if vrt.Choice("comment", 2) == 1 {
		c := vrt.Byte("commentchar")
		vrt.Assume(c != 0)
		vrt.Assume(c < 0x80)
		comment = string([]byte{c})
	}
	if vrt.Choice("extra", 2) == 1 {
		// one well-formed subfield with one data byte (identifier is not BC)
		a, b := vrt.Byte("si1"), vrt.Byte("si2")
		vrt.Assume(!(a == 'B' && b == 'C'))
		extra = []byte{a, b, 1, 0, vrt.Byte("sdata")}
	}
	os := vrt.Byte("os")
	for _, w := range ws {
		w.Name, w.Comment, w.OS = name, comment, os
		w.Extra = append([]byte(nil), extra...)
	}
}

// C08: every produced stream is a sequence of conformant BGZF members that
// expand to the written data, ends with the EOF marker iff Close returned nil,
// and does not depend on the writer's concurrency.
func VerifH_bgzf_conformance() {
	wc := vrt.Param("wc", 1)
	sink := &verifSink{failAt: -1}
	w := NewWriter(sink, wc)
	verifHeaderSettings(w)
	data, _ := verifWriteScript(w)
	stream := sink.data
	dec, ms, ok := verifDecoded(stream)
	vrt.Assert(ok, "stream-is-a-sequence-of-BGZF-members")
	for _, m := range ms {
		vrt.Assert(m.nBC == 1, "exactly-one-BC-subfield")
		vrt.Assert(m.bsize+1 == len(m.raw), "BSIZE==member-length-1")
		vrt.Assert(len(m.raw) <= MaxBlockSize, "member<=MaxBlockSize")
		vrt.Assert(len(m.payload) <= BlockSize, "payload<=BlockSize")
	}
	vrt.Assert(len(dec) == len(data), "expands-to-written-length")
	vrt.Assert(verifIsPrefix(dec, data), "expands-to-written-data")
	// EOF marker (Close returned nil in verifWriteScript)
	vrt.Assert(len(stream) >= len(magicBlock), "room-for-marker")
	vrt.Assert(bytes.Equal(stream[len(stream)-len(magicBlock):], []byte(magicBlock)), "ends-with-EOF-marker")
	has, err := HasEOF(bytes.NewReader(stream))
	vrt.Assert(err == nil && has, "HasEOF-true-after-clean-close")
	vrt.Reach("end")
}

// C08 (determinism): the bytes do not depend on the writer concurrency.
func VerifH_bgzf_deterministic() {
	s1 := &verifSink{failAt: -1}
	s2 := &verifSink{failAt: -1}
	w1 := NewWriter(s1, 1)
	w2 := NewWriter(s2, 2)
	verifHeaderSettings(w1, w2)
	CALLS := vrt.Param("CALLS", 2)
	MAXW := vrt.Param("MAXW", 2*BlockSize+2)
	ncalls := vrt.Choice("ncalls", CALLS+1)
	for i := 0; i < ncalls; i++ {
		vrt.Jitter() // native replays: vary the spacing of the API calls
		switch vrt.Choice("call", 3) {
		case 0:
			n := verifLen("wlen", MAXW)
			b := vrt.Bytes("payload", n)
			_, e1 := w1.Write(b)
			_, e2 := w2.Write(b)
			vrt.Assert(e1 == nil && e2 == nil, "Write-no-error")
		case 1:
			vrt.Assert(w1.Flush() == nil && w2.Flush() == nil, "Flush-no-error")
		case 2:
			vrt.Assert(w1.Wait() == nil && w2.Wait() == nil, "Wait-no-error")
		}
	}
	vrt.Assert(w1.Close() == nil && w2.Close() == nil, "Close-no-error")
	vrt.Assert(len(s1.data) == len(s2.data), "same-stream-length-for-wc-1-and-2")
	vrt.Assert(verifIsPrefix(s1.data, s2.data), "same-stream-bytes-for-wc-1-and-2")
	vrt.Reach("end")
}

// C12: after every underlying write the delivered bytes are whole blocks that
// decode to a prefix of the data written so far; Flush+Wait makes it durable.
func VerifH_bgzf_durable() {
	wc := vrt.Param("wc", 1)
	var written []byte
	sink := &verifSink{failAt: -1}
	// The sink is written from the library's goroutines: the observations are accumulated
	// there and asserted on the harness goroutine (a failed assertion is a panic, which a
	// native replay can only catch on the harness goroutine).
	wholeBlocks, inOrder := true, true
	sink.onWrite = func(s *verifSink) {
		dec, _, ok := verifDecoded(s.data)
		wholeBlocks = vrt.And(wholeBlocks, ok)
		inOrder = vrt.And(inOrder, verifIsPrefix(dec, written))
	}
	observed := func() {
		vrt.Assert(wholeBlocks, "delivered-bytes-are-whole-blocks")
		vrt.Assert(inOrder, "delivered-blocks-decode-to-prefix-in-write-order")
	}
	w := NewWriter(sink, wc)
	CALLS := vrt.Param("CALLS", 2)
	MAXW := vrt.Param("MAXW", 2*BlockSize+2)
	ncalls := vrt.Choice("ncalls", CALLS+1)
	for i := 0; i < ncalls; i++ {
		vrt.Jitter() // native replays: vary the spacing of the API calls
		switch vrt.Choice("call", 2) {
		case 0:
			n := verifLen("wlen", MAXW)
			b := vrt.Bytes("payload", n)
			written = append(written, b...)
			_, err := w.Write(b)
			vrt.Assert(err == nil, "Write-no-error")
		case 1:
			before := len(written)
			vrt.Assert(w.Flush() == nil, "Flush-no-error")
			vrt.Assert(w.Wait() == nil, "Wait-no-error")
			observed()
			dec, _, ok := verifDecoded(sink.data)
			vrt.Assert(ok, "after-Flush+Wait-whole-blocks")
			vrt.Assert(len(dec) == before, "Flush+Wait-makes-everything-written-durable")
			vrt.Assert(verifIsPrefix(dec, written), "Flush+Wait-durable-data-correct")
		}
	}
	vrt.Assert(w.Close() == nil, "Close-no-error")
	observed()
	dec, _, ok := verifDecoded(sink.data)
	vrt.Assert(ok, "after-Close-whole-blocks")
	vrt.Assert(len(dec) == len(written) && verifIsPrefix(dec, written), "Close-makes-everything-durable")
	vrt.Reach("end")
}
