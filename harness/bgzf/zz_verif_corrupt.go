package bgzf

import (
	"bytes"
	"compress/gzip"
	"io"

	"github.com/biogo/hts/internal/vrt"
)

// verifSmallStream writes one or two members (payload 1..3 and 0..2 bytes) and closes.
func verifSmallStream() (stream, data []byte, boundaries []int) {
	var sink bytes.Buffer
	w := NewWriter(&sink, 1)
	n1 := 1 + vrt.Choice("len1", 3)
	d1 := vrt.Bytes("payload", n1)
	w.Write(d1)
	w.Flush()
	w.Wait()
	boundaries = append(boundaries, 0, sink.Len())
	n2 := vrt.Choice("len2", 3)
	d2 := vrt.Bytes("payload2", n2)
	if n2 > 0 {
		w.Write(d2)
		w.Flush()
		w.Wait()
		boundaries = append(boundaries, sink.Len())
	}
	vrt.Assert(w.Close() == nil, "writer-close")
	// after Close: the final (empty) member and the EOF marker
	boundaries = append(boundaries, sink.Len()-len(magicBlock), sink.Len())
	return sink.Bytes(), append(append([]byte(nil), d1...), d2...), boundaries
}

func verifDrain(r *Reader, max int) (got []byte, err error) {
	for calls := 0; calls < max+3; calls++ {
		p := make([]byte, 2)
		n, e := r.Read(p)
		got = append(got, p[:n]...)
		if e != nil {
			return got, e
		}
	}
	return got, nil
}

// C10-H-trunc: every proper prefix of a closed stream reads as a prefix of the
// data followed by an error, or by a clean end only at a block boundary, where
// HasEOF reports false.
func VerifH_bgzf_truncated() {
	rd := vrt.Param("rd", 1)
	stream, data, bounds := verifSmallStream()
	// the cut is chosen as (member, offset in member) so that it transfers to the real
	// encoder's member sizes on native replay
	mi := vrt.Choice("member", len(bounds)-1)
	o := vrt.Choice("offset", 40)
	vrt.Assume(bounds[mi]+o < bounds[mi+1])
	t := bounds[mi] + o
	cut := stream[:t]
	r, err := NewReader(bytes.NewReader(cut), rd)
	atBoundary := false
	for _, b := range bounds {
		if b == t {
			atBoundary = true
		}
	}
	if err != nil {
		if err == io.EOF {
			vrt.Assert(t == 0, "open-clean-EOF-only-for-empty-input")
		}
		vrt.Reach("open-error")
		return
	}
	got, rerr := verifDrain(r, len(data))
	vrt.Assert(rerr != nil, "reading-ends")
	vrt.Assert(len(got) <= len(data) && verifIsPrefix(got, data), "truncated-stream-yields-prefix-of-data")
	if rerr == io.EOF {
		vrt.Assert(atBoundary, "clean-end-only-at-a-block-boundary")
		has, herr := HasEOF(bytes.NewReader(cut))
		vrt.Assert(herr != nil || !has, "HasEOF-false-for-truncated-stream")
	}
	r.Close()
	vrt.Reach("end")
}

// C10-H-flip: a stream with one byte altered either fails to read or returns
// exactly the original data (relative to the codec model's detection contract).
func VerifH_bgzf_flipped() {
	rd := vrt.Param("rd", 1)
	stream, data, bounds := verifSmallStream()
	bad := append([]byte(nil), stream...)
	// the position is chosen as (member, offset in member): header offsets mean the same
	// field under the codec model and under the real encoder, whose member sizes differ
	mi := vrt.Choice("member", len(bounds)-1)
	o := vrt.Choice("offset", 40)
	vrt.Assume(bounds[mi]+o < bounds[mi+1])
	p := bounds[mi] + o
	v := vrt.Byte("value")
	vrt.Assume(v != bad[p])
	bad[p] = v
	// Scaling side condition: with the real constants every 16-bit BSIZE fits the
	// MaxBlockSize buffer (VerifH_bgzf_bsize_fits); with the scaled MaxBlockSize the
	// altered field has to be kept inside it by assumption.
	for _, b := range bounds[:len(bounds)-1] {
		vrt.Assume(int(bad[b+16])|int(bad[b+17])<<8 < MaxBlockSize)
	}
	r, err := NewReader(bytes.NewReader(bad), rd)
	if err != nil {
		vrt.Reach("open-error")
		return
	}
	got, rerr := verifDrain(r, len(data))
	if rerr == io.EOF {
		vrt.Assert(len(got) == len(data) && verifIsPrefix(got, data), "altered-stream-reads-as-original-or-fails")
	} else {
		vrt.Assert(rerr != nil, "reading-ends")
		vrt.Assert(len(got) <= len(data) && verifIsPrefix(got, data), "bytes-before-the-failure-are-original")
	}
	r.Close()
	vrt.Reach("end")
}

// C10-H-bsize: side condition of the scaled harnesses, decided on the real
// constants: whatever the 16-bit BSIZE field holds, the member size derived from
// it fits the decompressor's read-ahead buffer.
func VerifH_bgzf_bsize_fits() {
	n := 6 + vrt.Choice("extra", 3)
	var h gzip.Header
	h.Extra = vrt.Bytes("extra-bytes", n)
	sz := expectedMemberSize(h)
	vrt.Assert(sz <= MaxBlockSize, "member-size-from-BSIZE-fits-the-buffer")
	vrt.Assert(sz == -1 || sz >= 1, "member-size-positive-or-absent")
	vrt.Reach("end")
}
