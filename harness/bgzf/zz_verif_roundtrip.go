package bgzf

import (
	"bytes"
	"io"

	"github.com/biogo/hts/internal/vrt"
)

// verifLen picks a write length: every length 0..max, or (parameter lens=1) the
// boundary lengths around one and two blocks only.
func verifLen(name string, max int) int {
	if vrt.Param("lens", 0) == 1 {
		l := []int{0, 1, BlockSize - 1, BlockSize, BlockSize + 1, 2 * BlockSize, 2*BlockSize + 1}
		return l[vrt.Choice(name, len(l))]
	}
	return vrt.Choice(name, max+1)
}

// verifWriteScript performs up to CALLS calls chosen from {Write(b), Flush, Wait}
// followed by Close, and returns everything written and the per-call write sizes.
func verifWriteScript(w *Writer) (data []byte, ok bool) {
	CALLS := vrt.Param("CALLS", 2)
	MAXW := vrt.Param("MAXW", 2*BlockSize+2)
	ncalls := vrt.Choice("ncalls", CALLS+1)
	for i := 0; i < ncalls; i++ {
		vrt.Jitter() // native replays: vary the spacing of the API calls
		switch vrt.Choice("call", 3) {
		case 0:
			n := verifLen("wlen", MAXW)
			b := vrt.Bytes("payload", n)
			k, err := w.Write(b)
			vrt.Assert(err == nil, "Write-no-error")
			vrt.Assert(k == n, "Write-returns-len")
			data = append(data, b...)
		case 1:
			vrt.Assert(w.Flush() == nil, "Flush-no-error")
		case 2:
			vrt.Assert(w.Wait() == nil, "Wait-no-error")
		}
	}
	vrt.Assert(w.Close() == nil, "Close-no-error")
	return data, true
}

// verifReadAll drains r with one of a few read patterns: all Read with one
// buffer size, all ReadByte, or alternating; it checks the per-call contract.
func verifReadAll(r *Reader, expect int) (got []byte, eof bool) {
	mode := vrt.Choice("readmode", 3)
	size := 1 + vrt.Choice("buflen", vrt.Param("BUF", BlockSize+1))
	for calls := 0; calls < expect+3 && !eof; calls++ {
		if mode == 0 || (mode == 2 && calls%2 == 0) {
			p := make([]byte, size)
			n, err := r.Read(p)
			vrt.Assert(n >= 0 && n <= len(p), "Read-n-in-range")
			got = append(got, p[:n]...)
			if err != nil {
				vrt.Assert(err == io.EOF, "Read-only-EOF-error")
				eof = true
			} else {
				vrt.Assert(n == len(p), "Read-short-only-at-end")
			}
		} else {
			b, err := r.ReadByte()
			if err != nil {
				vrt.Assert(err == io.EOF, "ReadByte-only-EOF-error")
				eof = true
			} else {
				got = append(got, b)
			}
		}
	}
	return got, eof
}

// C01: whatever is written is read back exactly, then io.EOF, for every mix of
// Read (any buffer size) and ReadByte, writer/reader concurrency and schedule.
func VerifH_bgzf_roundtrip() {
	wc := vrt.Param("wc", 1)
	rd := vrt.Param("rd", 1)
	var sink bytes.Buffer
	w, err := NewWriterLevel(&sink, vrt.Choice("level", 1)-1+0, wc)
	vrt.Assert(err == nil, "NewWriterLevel")
	data, _ := verifWriteScript(w)
	r, err := NewReader(bytes.NewReader(sink.Bytes()), rd)
	vrt.Assert(err == nil, "NewReader")
	got, eof := verifReadAll(r, len(data))
	vrt.Assert(eof, "EOF-reached")
	vrt.Assert(len(got) == len(data), "same-length")
	same := true
	for i := range data {
		if i < len(got) {
			same = vrt.And(same, got[i] == data[i])
		}
	}
	vrt.Assert(same, "same-bytes")
	vrt.Assert(r.Close() == nil, "Reader-Close")
	vrt.Assert(vrt.LiveTasks() == 0, "no-goroutine-left")
	vrt.Reach("end")
}
