package cache

import (
	"github.com/biogo/hts/bgzf"
	"github.com/biogo/hts/internal/vrt"
)

var verifBases = [3]int64{0, 64, 128}

// verifModel is the reference model: blocks in eviction order, front (most
// protected) first, back (next to be evicted) last.
type verifModel struct {
	kind int // 0 LRU, 1 FIFO, 2 Random
	cap  int
	list []*bgzf.VerifBlock
}

func (m *verifModel) find(base int64) int {
	for i, b := range m.list {
		if b.BaseOff == base {
			return i
		}
	}
	return -1
}

func (m *verifModel) removeAt(i int) {
	m.list = append(m.list[:i:i], m.list[i+1:]...)
}

func (m *verifModel) unusedCount() int {
	n := 0
	for _, b := range m.list {
		if !b.IsUsed {
			n++
		}
	}
	return n
}

// syncDropped removes from the model whatever the cache no longer holds and
// checks that exactly want blocks went, unused ones first (Random) or from the back (LRU, FIFO).
func (m *verifModel) syncDropped(c Cache, want int, label string) {
	if want < 0 {
		want = 0
	}
	if want > len(m.list) {
		want = len(m.list)
	}
	unusedBefore := m.unusedCount()
	var kept []*bgzf.VerifBlock
	gone, goneUnused := 0, 0
	firstGone := -1
	for i, b := range m.list {
		ok, _ := c.Peek(b.BaseOff)
		if ok {
			kept = append(kept, b)
		} else {
			gone++
			if !b.IsUsed {
				goneUnused++
			}
			if firstGone < 0 {
				firstGone = i
			}
		}
	}
	vrt.Assert(gone == want, label+"-count")
	if m.kind == 2 {
		// unused blocks are preferentially evicted
		wantUnused := want
		if wantUnused > unusedBefore {
			wantUnused = unusedBefore
		}
		vrt.Assert(goneUnused == wantUnused, label+"-unused-first")
	} else if gone > 0 {
		// eviction is from the back of the order
		vrt.Assert(firstGone == len(m.list)-gone, label+"-from-back")
	}
	m.list = kept
}

func verifNewCache(kind, n int) Cache {
	switch kind {
	case 0:
		return NewLRU(n)
	case 1:
		return NewFIFO(n)
	}
	return NewRandom(n)
}

// C14-H-seq: a history of L calls with symbolic kinds and arguments, checked
// in lock-step against the reference model. Every call must return (the engine
// reports a lock that can never be taken as a deadlock).
func VerifH_cache_history() {
	kind := vrt.Param("kind", 0)
	L := vrt.Param("L", 4)
	capacity := 1 + vrt.Choice("cap", vrt.Param("CAP", 3))
	vrt.MapOrderNondet(kind == 2)
	var c Cache = verifNewCache(kind, capacity)
	var bc bgzf.Cache = c
	var rec *StatsRecorder
	if vrt.Param("stats", 0) == 1 {
		rec = &StatsRecorder{Cache: c}
		bc = rec
	}
	m := &verifModel{kind: kind, cap: capacity}
	gets, misses, puts, retains, evictions := 0, 0, 0, 0, 0
	nextID := 0
	for step := 0; step < L; step++ {
		switch vrt.Choice("op", 7) {
		case 0: // Put
			base := verifBases[vrt.Choice("base", 3)]
			used := vrt.Bool("used")
			nextID++
			blk := bgzf.VerifNewBlock(nextID, base, base+32, used)
			ev, retained := bc.Put(blk)
			puts++
			switch {
			case m.find(base) >= 0:
				vrt.Assert(ev == bgzf.Block(blk), "put-existing-returns-block")
				vrt.Assert(!retained, "put-existing-not-retained")
			case len(m.list) == m.cap && !used:
				vrt.Assert(ev == bgzf.Block(blk), "put-unused-when-full-refused")
				vrt.Assert(!retained, "put-unused-when-full-not-retained")
			default:
				vrt.Assert(retained, "put-retained")
				retains++
				if len(m.list) == m.cap {
					vrt.Assert(ev != nil, "put-full-evicts")
					evictions++
					evb, _ := ev.(*bgzf.VerifBlock)
					vrt.Assert(evb != nil, "evicted-is-a-cached-block")
					i := -1
					for j, b := range m.list {
						if b == evb {
							i = j
						}
					}
					vrt.Assert(i >= 0, "evicted-was-cached")
					if m.kind == 2 {
						vrt.Assert(!evb.IsUsed || m.unusedCount() == 0, "random-evicts-unused-first")
					} else {
						vrt.Assert(i == len(m.list)-1, "evicts-according-to-policy")
					}
					m.removeAt(i)
					// the reader may now overwrite the evicted block with another member
					evb.BaseOff = verifBases[vrt.Choice("rebase", 3)]
				} else {
					vrt.Assert(ev == nil, "put-not-full-no-eviction")
				}
				if used {
					m.list = append([]*bgzf.VerifBlock{blk}, m.list...)
				} else {
					m.list = append(m.list, blk)
				}
			}
		case 1: // Get
			base := verifBases[vrt.Choice("base", 3)]
			got := bc.Get(base)
			gets++
			i := m.find(base)
			if i < 0 {
				vrt.Assert(got == nil, "get-miss-nil")
				misses++
			} else {
				vrt.Assert(got == bgzf.Block(m.list[i]), "get-returns-cached-block")
				vrt.Assert(got.Base() == base, "get-base-matches")
				m.removeAt(i)
				// ownership is handed over: the block must be gone from the cache
				ok, _ := c.Peek(base)
				vrt.Assert(!ok, "get-hands-over")
			}
		case 2: // Peek
			base := verifBases[vrt.Choice("base", 3)]
			ok, next := bc.Peek(base)
			i := m.find(base)
			vrt.Assert(ok == (i >= 0), "peek-consistent-with-get")
			if i >= 0 {
				vrt.Assert(next == m.list[i].Next, "peek-next")
			} else {
				vrt.Assert(next == -1, "peek-miss-next")
			}
		case 3: // Len, Cap
			vrt.Assert(c.Len() == len(m.list), "len")
			vrt.Assert(c.Cap() == m.cap, "cap")
		case 4: // Resize
			n := 1 + vrt.Choice("n", 3)
			c.Resize(n)
			m.syncDropped(c, len(m.list)-n, "resize-drops")
			m.cap = n
			vrt.Assert(c.Cap() == n, "resize-cap")
		case 5: // Drop
			n := vrt.Choice("n", 6) - 1
			c.Drop(n)
			m.syncDropped(c, n, "drop")
		case 6: // Free
			n := vrt.Choice("n", 6) - 1
			empty := m.cap - len(m.list)
			ok := Free(n, c)
			if n > empty {
				m.syncDropped(c, n-empty, "free-drops")
			} else {
				m.syncDropped(c, 0, "free-keeps")
			}
			vrt.Assert(ok == (m.cap-len(m.list) >= n), "free-result")
		}
		vrt.Assert(c.Len() <= c.Cap(), "len<=cap")
		vrt.Assert(c.Len() == len(m.list), "len-matches-model")
	}
	if rec != nil {
		s := rec.Stats()
		vrt.Assert(s.Gets == gets, "stats-gets")
		vrt.Assert(s.Misses == misses, "stats-misses")
		vrt.Assert(s.Puts == puts, "stats-puts")
		vrt.Assert(s.Retains == retains, "stats-retains")
		vrt.Assert(s.Evictions == evictions, "stats-evictions")
	}
	vrt.Reach("end")
}
