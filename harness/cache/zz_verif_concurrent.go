package cache

import (
	"sync"

	"github.com/biogo/hts/bgzf"
	"github.com/biogo/hts/internal/vrt"
)

type verifOp struct {
	kind int // 0 Put, 1 Get, 2 Peek, 3 Len
	base int64
	used bool
	id   int
}

type verifRes struct{ a, b int64 }

func verifBlockID(b bgzf.Block) int64 {
	if b == nil {
		return -1
	}
	if vb, ok := b.(*bgzf.VerifBlock); ok && vb != nil {
		return int64(vb.ID)
	}
	return -2
}

func verifApply(c bgzf.Cache, op verifOp) verifRes {
	switch op.kind {
	case 0:
		ev, retained := c.Put(bgzf.VerifNewBlock(op.id, op.base, op.base+32, op.used))
		r := int64(0)
		if retained {
			r = 1
		}
		return verifRes{verifBlockID(ev), r}
	case 1:
		return verifRes{verifBlockID(c.Get(op.base)), 0}
	case 2:
		ok, next := c.Peek(op.base)
		r := int64(0)
		if ok {
			r = 1
		}
		return verifRes{r, next}
	}
	return verifRes{int64(c.(Cache).Len()), 0}
}

// verifContent summarises what a cache holds: Len and, per base, Peek.
func verifContent(c Cache) [4]verifRes {
	var out [4]verifRes
	out[0] = verifRes{int64(c.Len()), int64(c.Cap())}
	for i, b := range verifBases {
		ok, next := c.Peek(b)
		if ok {
			out[1+i] = verifRes{1, next}
		}
	}
	return out
}

// C14-H-conc: G goroutines each perform one operation on a shared cache, under every
// schedule the engine explores (pre-emption at lock operations). The results and the final
// content must equal those of some sequential order of the same operations on an identical
// cache (linearizability of single operations; the sequential behaviour itself is checked
// against the reference model by VerifH_cache_history).
func VerifH_cache_concurrent() {
	kind := vrt.Param("kind", 0)
	G := vrt.Param("G", 2)
	capacity := 1 + vrt.Choice("cap", 2)
	vrt.MapOrderNondet(false)
	prefill := vrt.Choice("prefill", 2)
	ops := make([]verifOp, G)
	for g := range ops {
		ops[g] = verifOp{kind: vrt.Choice("op", 4), base: verifBases[vrt.Choice("base", 2)], used: true, id: 10 + g}
		if ops[g].kind == 0 {
			ops[g].used = vrt.Choice("used", 2) == 1
		}
	}
	mk := func() Cache {
		c := verifNewCache(kind, capacity)
		if prefill == 1 {
			c.Put(bgzf.VerifNewBlock(1, verifBases[0], verifBases[0]+32, true))
		}
		return c
	}
	// concurrent run
	shared := mk()
	got := make([]verifRes, G)
	var wg sync.WaitGroup
	for g := 0; g < G; g++ {
		wg.Add(1)
		go func(g int) {
			defer wg.Done()
			got[g] = verifApply(shared, ops[g])
		}(g)
	}
	wg.Wait()
	final := verifContent(shared)

	// sequential orders
	perms := [][]int{{0, 1}, {1, 0}}
	if G == 3 {
		perms = [][]int{{0, 1, 2}, {0, 2, 1}, {1, 0, 2}, {1, 2, 0}, {2, 0, 1}, {2, 1, 0}}
	}
	matched := false
	for _, p := range perms {
		c := mk()
		res := make([]verifRes, G)
		for _, g := range p {
			res[g] = verifApply(c, ops[g])
		}
		same := verifContent(c) == final
		for g := range res {
			if res[g] != got[g] {
				same = false
			}
		}
		if same {
			matched = true
		}
	}
	vrt.Assert(matched, "concurrent-history-is-linearizable")
	vrt.Reach("end")
}
