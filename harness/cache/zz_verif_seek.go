package cache

import (
	"bytes"
	"io"

	"github.com/biogo/hts/bgzf"
	"github.com/biogo/hts/internal/vrt"
)

// verifMem describes one member of a BGZF stream as seen by the flat model.
type verifMem struct {
	base int64 // file offset of the member
	n    int   // payload length
	cum  int   // flat position of the member's first payload byte
}

// verifBases walks the member headers (RFC 1952 + BC subfield) to find the file offsets.
func verifMemberBases(stream []byte) []int64 {
	var out []int64
	for off := 0; off+18 <= len(stream); {
		b := stream[off:]
		xlen := int(b[10]) | int(b[11])<<8
		size := -1
		for x := b[12 : 12+xlen]; len(x) >= 4; {
			slen := int(x[2]) | int(x[3])<<8
			if x[0] == 'B' && x[1] == 'C' && slen == 2 {
				size = (int(x[4]) | int(x[5])<<8) + 1
			}
			x = x[4+slen:]
		}
		if size <= 0 {
			break
		}
		out = append(out, int64(off))
		off += size
	}
	return out
}

// verifStream writes M members with explored payload lengths 1..BlockSize
// (symbolic contents) followed by Close (an empty member and the EOF marker).
func verifStream() (stream []byte, data []byte, mems []verifMem) {
	M := 1 + vrt.Choice("members", vrt.Param("M", 2))
	var sink bytes.Buffer
	w := bgzf.NewWriter(&sink, 1)
	var lens []int
	for j := 0; j < M; j++ {
		n := []int{1, bgzf.BlockSize, 2}[vrt.Choice("mlen", vrt.Param("MLENS", 3))]
		b := vrt.Bytes("payload", n)
		w.Write(b)
		w.Flush()
		data = append(data, b...)
		lens = append(lens, n)
	}
	vrt.Assert(w.Close() == nil, "writer-close")
	stream = sink.Bytes()
	if vrt.Choice("marker", 2) == 0 {
		stream = stream[:len(stream)-28] // without the EOF marker
	}
	bases := verifMemberBases(stream)
	cum := 0
	for j, base := range bases {
		n := 0
		if j < len(lens) {
			n = lens[j]
		}
		mems = append(mems, verifMem{base: base, n: n, cum: cum})
		cum += n
	}
	return stream, data, mems
}

// verifFlat is the flat model of a reader position.
type verifFlat struct {
	mems    []verifMem
	data    []byte
	fileEnd int64
	j, o    int
	sticky  bool
	blocked bool
}

func (f *verifFlat) pos() int { return f.mems[f.j].cum + f.o }

// translate maps a virtual offset to a flat position (-1 if it names no member).
func (f *verifFlat) translate(off bgzf.Offset) int {
	for _, m := range f.mems {
		if m.base == off.File {
			return m.cum + int(off.Block)
		}
	}
	if off.File == f.fileEnd && off.Block == 0 {
		// the position after the last member is the end of the data
		return len(f.data)
	}
	return -1
}

// read models Reader.Read(p) with len(p)==n: returns the bytes, whether io.EOF
// is reported, and the flat positions before and after.
func (f *verifFlat) read(n int) (out []byte, eof bool, begin, end int, advanced bool) {
	if f.sticky {
		return nil, true, 0, 0, false
	}
	for f.o == f.mems[f.j].n {
		if f.j == len(f.mems)-1 {
			f.sticky = true
			return nil, true, 0, 0, false
		}
		f.j++
		f.o = 0
	}
	begin = f.pos()
	for {
		m := f.mems[f.j]
		k := m.n - f.o
		if k > n-len(out) {
			k = n - len(out)
		}
		out = append(out, f.data[m.cum+f.o:m.cum+f.o+k]...)
		f.o += k
		if len(out) == n {
			return out, false, begin, f.pos(), true
		}
		if f.blocked {
			return out, true, begin, f.pos(), true
		}
		if f.j == len(f.mems)-1 {
			f.sticky = true
			return out, true, begin, f.pos(), true
		}
		f.j++
		f.o = 0
	}
}

type verifResult struct {
	n     int
	data  []byte
	err   int // 0 nil, 1 io.EOF, 2 other
	chunk bgzf.Chunk
	blen  int
}

func verifErrClass(err error) int {
	switch err {
	case nil:
		return 0
	case io.EOF:
		return 1
	}
	return 2
}

func verifNewBgzfCache(kind, n int) bgzf.Cache {
	switch kind {
	case 0:
		return NewLRU(n)
	case 1:
		return NewFIFO(n)
	case 2:
		return NewRandom(n)
	case 3:
		return &StatsRecorder{Cache: NewLRU(n)}
	}
	return nil
}

// C02 + C03: a history of Seek/Read/ReadByte/Blocked operations on a reader
// obeys the flat model (bytes, end-of-data conditions, LastChunk translation);
// with parameter cachekind>=0 a second reader with that cache attached at an
// explored point must return exactly the same results (self-composition).
func VerifH_bgzf_seek_history() {
	rd := vrt.Param("rd", 1)
	L := vrt.Param("L", 3)
	cachekind := vrt.Param("cachekind", -1)
	stream, data, mems := verifStream()
	r, err := bgzf.NewReader(bytes.NewReader(stream), rd)
	vrt.Assert(err == nil, "NewReader")
	var rc *bgzf.Reader
	attachAt := -1
	if cachekind >= 0 {
		rc, err = bgzf.NewReader(bytes.NewReader(stream), rd)
		vrt.Assert(err == nil, "NewReader-cached")
		attachAt = vrt.Choice("attachAt", L)
	}
	f := &verifFlat{mems: mems, data: data, fileEnd: int64(len(stream))}
	do := func(rr *bgzf.Reader, op, a, b int) verifResult {
		var res verifResult
		switch op {
		case 0: // Read
			p := make([]byte, a)
			n, err := rr.Read(p)
			res.n, res.data, res.err = n, p[:n], verifErrClass(err)
		case 1: // ReadByte
			c, err := rr.ReadByte()
			res.err = verifErrClass(err)
			if err == nil {
				res.n, res.data = 1, []byte{c}
			}
		case 2: // Seek
			res.err = verifErrClass(rr.Seek(bgzf.Offset{File: mems[a].base, Block: uint16(b)}))
		case 3: // Blocked toggle
			rr.Blocked = !rr.Blocked
		}
		res.chunk = rr.LastChunk()
		res.blen = rr.BlockLen()
		return res
	}
	for step := 0; step < L; step++ {
		if step == attachAt {
			rc.SetCache(verifNewBgzfCache(cachekind, 1+vrt.Choice("cachecap", 2)))
		}
		var op int
		if vrt.Param("OPS", 4) == 2 {
			// directed variants: longer histories of Read and Seek only
			op = []int{0, 2}[vrt.Choice("op", 2)]
		} else {
			op = vrt.Choice("op", 4)
		}
		a, b := 0, 0
		switch op {
		case 0:
			a = []int{bgzf.BlockSize + 1, 1, bgzf.BlockSize, 2}[vrt.Choice("readlen", vrt.Param("RLENS", 4))]
		case 2:
			a = vrt.Choice("seekmember", len(mems))
			b = vrt.Choice("seekoff", mems[a].n+1)
			if vrt.Param("SEEKENDS", 0) == 1 && b > 0 {
				b = mems[a].n // only the two ends of a member
				if b > 1 {
					vrt.Assume(b == mems[a].n)
				}
			}
		}
		got := do(r, op, a, b)
		// flat model
		switch op {
		case 0:
			want, eof, begin, end, adv := f.read(a)
			vrt.Assert(got.n == len(want), "read-length")
			vrt.Assert(bytes.Equal(got.data, want), "read-bytes")
			if eof {
				vrt.Assert(got.err == 1, "read-reports-EOF-at-end")
			} else {
				vrt.Assert(got.err == 0, "read-no-error")
			}
			if adv {
				vrt.Assert(f.translate(got.chunk.Begin) == begin, "LastChunk-Begin")
				vrt.Assert(f.translate(got.chunk.End) == end, "LastChunk-End")
			}
		case 1:
			want, eof, begin, end, adv := f.read(1)
			if len(want) == 1 {
				vrt.Assert(got.err == 0 && got.n == 1 && got.data[0] == want[0], "readbyte-byte")
				vrt.Assert(f.translate(got.chunk.Begin) == begin, "LastChunk-Begin-byte")
				vrt.Assert(f.translate(got.chunk.End) == end, "LastChunk-End-byte")
			} else {
				vrt.Assert(eof && got.err == 1, "readbyte-EOF-at-end")
			}
			_ = adv
		case 2:
			vrt.Assert(got.err == 0, "seek-ok")
			f.j, f.o, f.sticky = a, b, false
			vrt.Assert(got.chunk.Begin == got.chunk.End && f.translate(got.chunk.Begin) == f.pos(), "seek-LastChunk")
		case 3:
			f.blocked = !f.blocked
		}
		if rc != nil {
			gc := do(rc, op, a, b)
			vrt.Assert(gc.n == got.n && gc.err == got.err, "cache-same-result")
			vrt.Assert(bytes.Equal(gc.data, got.data), "cache-same-bytes")
			vrt.Assert(gc.chunk == got.chunk, "cache-same-LastChunk")
			vrt.Assert(gc.blen == got.blen, "cache-same-BlockLen")
		}
	}
	r.Close()
	if rc != nil {
		rc.Close()
	}
	vrt.Reach("end")
}
