package internal

import "github.com/biogo/hts/internal/vrt"

// specReg2bin is the SAM specification's reg2bin (section 5.3), written as a
// loop over levels instead of the unrolled C of the specification.
func specReg2bin(beg, end int) int {
	end--
	for l := 5; l >= 1; l-- {
		shift := uint(14 + 3*(5-l))
		if beg>>shift == end>>shift {
			return ((1<<uint(3*l))-1)/7 + (beg >> shift)
		}
	}
	return 0
}

// specReg2bins is the SAM specification's reg2bins.
func specReg2bins(beg, end int) []int {
	end--
	list := []int{0}
	for l := 1; l <= 5; l++ {
		shift := uint(29 - 3*l)
		off := ((1 << uint(3*l)) - 1) / 7
		for k := off + (beg >> shift); k <= off+(end>>shift); k++ {
			list = append(list, k)
		}
	}
	return list
}

const verifMaxPos = 1 << 29

// C16-H1: BinFor equals the specification's reg2bin over the whole range.
func VerifH_bai_binfor() {
	beg := vrt.Int("beg")
	end := vrt.Int("end")
	vrt.Assume(beg >= 0)
	vrt.Assume(beg < end)
	vrt.Assume(end <= verifMaxPos)
	vrt.Assert(int(BinFor(beg, end)) == specReg2bin(beg, end), "BinFor==spec")
	vrt.Reach("end")
}

// C16-H1b: the unplaced case reg2bin(-1,0) = 4680.
func VerifH_bai_binfor_unplaced() {
	vrt.Assert(BinFor(-1, 0) == 4680, "BinFor(-1,0)==4680")
	vrt.Reach("end")
}

// C16-H2: OverlappingBinsFor equals the specification's reg2bins (same elements, same order)
// for every query spanning fewer than W finest-level tiles.
func VerifH_bai_overlapping() {
	W := vrt.Param("W", 8)
	beg := vrt.Int("beg")
	end := vrt.Int("end")
	vrt.Assume(beg >= 0)
	vrt.Assume(beg < end)
	vrt.Assume(end <= verifMaxPos)
	vrt.Assume(((end-1)>>14)-(beg>>14) < W)
	got := OverlappingBinsFor(beg, end)
	want := specReg2bins(beg, end)
	vrt.Assert(len(got) == len(want), "same-length")
	same := true
	for i := range want {
		same = vrt.And(same, int(got[i]) == want[i])
	}
	vrt.Assert(same, "same-elements")
	vrt.Reach("end")
}

// C16-H3: bin consistency. For overlapping record and query intervals the
// record's bin is in the query's bin list (record length unbounded).
func VerifH_bai_consistency() {
	W := vrt.Param("W", 8)
	rb := vrt.Int("rb")
	re := vrt.Int("re")
	qb := vrt.Int("qb")
	qe := vrt.Int("qe")
	vrt.Assume(rb >= 0)
	vrt.Assume(rb < re)
	vrt.Assume(re <= verifMaxPos)
	vrt.Assume(qb >= 0)
	vrt.Assume(qb < qe)
	vrt.Assume(qe <= verifMaxPos)
	vrt.Assume(rb < qe)
	vrt.Assume(qb < re)
	vrt.Assume(((qe-1)>>14)-(qb>>14) < W)
	bin := BinFor(rb, re)
	found := false
	for _, b := range OverlappingBinsFor(qb, qe) {
		found = vrt.Or(found, b == bin)
	}
	vrt.Assert(found, "record-bin-in-query-bins")
	vrt.Reach("end")
}
