package internal

import (
	"github.com/biogo/hts/bgzf"
	"github.com/biogo/hts/bgzf/index"
	"github.com/biogo/hts/internal/vrt"
)

type verifRec struct {
	rid, start, end int
	placed, mapped  bool
	chunk           bgzf.Chunk
}

func (r *verifRec) RefID() int { return r.rid }
func (r *verifRec) Start() int { return r.start }
func (r *verifRec) End() int   { return r.end }

// verifRecords returns k<=K records sorted by (rid,start) with monotone chunks
// (c_i.Begin < c_i.End <= c_{i+1}.Begin), coordinates below T tiles.
func verifRecords() []*verifRec {
	K := vrt.Param("K", 3)
	T := vrt.Param("T", 4)
	R := vrt.Param("R", 2)
	k := 1 + vrt.Choice("nrec", K)
	recs := make([]*verifRec, k)
	var prevEnd int64
	for i := range recs {
		r := &verifRec{}
		r.placed = vrt.Bool("placed")
		r.mapped = vrt.Bool("mapped")
		r.rid = vrt.Int("rid")
		r.start = vrt.Int("start")
		r.end = vrt.Int("end")
		vrt.Assume(r.rid >= 0)
		vrt.Assume(r.rid < R)
		vrt.Assume(r.start >= 0)
		vrt.Assume(r.start < r.end)
		vrt.Assume(r.end <= T*TileWidth)
		if i > 0 {
			p := recs[i-1]
			vrt.Assume(vrt.Or(p.rid < r.rid, vrt.And(p.rid == r.rid, p.start <= r.start)))
		}
		b := vrt.Int64("cbeg")
		e := vrt.Int64("cend")
		vrt.Assume(b >= prevEnd)
		vrt.Assume(b < e)
		vrt.Assume(e < 1<<40)
		prevEnd = e
		r.chunk = bgzf.Chunk{Begin: makeOffset(uint64(b)), End: makeOffset(uint64(e))}
		recs[i] = r
	}
	return recs
}

func verifBuild(recs []*verifRec) *Index {
	idx := &Index{}
	for _, r := range recs {
		// unplaced records are added the way bam.Index.Add adds them
		err := idx.Add(r, BinFor(r.start, r.end), r.chunk, r.placed, r.mapped)
		vrt.Assert(err == nil, "Add-sorted-never-fails")
	}
	return idx
}

// verifComplete: every placed record overlapping the query lies in a returned chunk.
func verifComplete(idx *Index, recs []*verifRec, label string) {
	R := vrt.Param("R", 2)
	T := vrt.Param("T", 4)
	ref := vrt.Int("qref")
	beg := vrt.Int("qbeg")
	end := vrt.Int("qend")
	vrt.Assume(ref >= 0)
	vrt.Assume(ref < R)
	vrt.Assume(beg >= 0)
	vrt.Assume(beg < end)
	vrt.Assume(end <= T*TileWidth)
	chunks, err := idx.Chunks(ref, beg, end)
	for _, r := range recs {
		hit := vrt.And(vrt.And(r.placed, r.rid == ref), vrt.And(r.start < end, beg < r.end))
		covered := false
		if err == nil {
			for _, c := range chunks {
				covered = vrt.Or(covered, vrt.And(vOffset(c.Begin) <= vOffset(r.chunk.Begin), vOffset(r.chunk.End) <= vOffset(c.End)))
			}
		}
		vrt.Assert(vrt.Implies(hit, covered), label)
	}
}

// C04 (BAI/tabix core): Add in sorted order never fails; Chunks is complete.
func VerifH_index_complete() {
	recs := verifRecords()
	idx := verifBuild(recs)
	verifComplete(idx, recs, "overlapping-record-covered")
	vrt.Reach("end")
}

// C04: completeness is kept by MergeChunks with every provided strategy.
func VerifH_index_complete_merged() {
	recs := verifRecords()
	idx := verifBuild(recs)
	switch vrt.Choice("strategy", 4) {
	case 0:
		idx.MergeChunks(index.Identity)
	case 1:
		idx.MergeChunks(index.Adjacent)
	case 2:
		idx.MergeChunks(index.Squash)
	case 3:
		near := vrt.Int64("near")
		vrt.Assume(near >= 0)
		vrt.Assume(near < 1<<40)
		idx.MergeChunks(index.CompressorStrategy(near))
	}
	verifComplete(idx, recs, "overlapping-record-covered-after-merge")
	vrt.Reach("end")
}
