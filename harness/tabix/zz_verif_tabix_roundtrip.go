package tabix

import (
	"bytes"

	"github.com/biogo/hts/bgzf"
	"github.com/biogo/hts/internal"
	"github.com/biogo/hts/internal/vrt"
)

// C15 (tabix): header fields, names and index survive write -> read -> write.
func VerifH_tabix_roundtrip() {
	K := vrt.Param("K", 2)
	T := vrt.Param("T", 2)
	R := vrt.Param("R", 2)
	idx := New()
	idx.Format = vrt.Byte("format")
	idx.ZeroBased = vrt.Bool("zerobased")
	idx.NameColumn = vrt.Int32("namecol")
	idx.BeginColumn = vrt.Int32("begcol")
	idx.EndColumn = vrt.Int32("endcol")
	idx.MetaChar = rune(vrt.Int32("meta"))
	idx.Skip = vrt.Int32("skip")
	k := 1 + vrt.Choice("nrec", K)
	recs := make([]*verifRec, k)
	var prevEnd int64
	for i := range recs {
		r := &verifRec{}
		if i > 0 {
			r.ref = recs[i-1].ref
			if r.ref+1 < R && vrt.Choice("nextref", 2) == 1 {
				r.ref++
			}
		}
		r.name = verifNames[r.ref]
		r.placed = true
		r.mapped = vrt.Bool("mapped")
		r.start = vrt.Int("start")
		r.end = vrt.Int("end")
		vrt.Assume(r.start >= 0)
		vrt.Assume(r.start < r.end)
		vrt.Assume(r.end <= T*internal.TileWidth)
		if i > 0 && recs[i-1].ref == r.ref {
			vrt.Assume(recs[i-1].start <= r.start)
		}
		b := vrt.Int64("cbeg")
		e := vrt.Int64("cend")
		vrt.Assume(b >= prevEnd)
		vrt.Assume(b < e)
		vrt.Assume(e < 1<<40)
		prevEnd = e
		r.chunk = bgzf.Chunk{Begin: bgzf.Offset{File: b >> 16, Block: uint16(b)}, End: bgzf.Offset{File: e >> 16, Block: uint16(e)}}
		recs[i] = r
		err := idx.Add(r, r.chunk, r.placed, r.mapped)
		vrt.Assert(err == nil, "Add-sorted-never-fails")
	}
	var b1 bytes.Buffer
	err := WriteTo(&b1, idx)
	vrt.Assert(err == nil, "WriteTo")
	first := append([]byte(nil), b1.Bytes()...)
	idx2, err := ReadFrom(&b1)
	vrt.Assert(err == nil, "ReadFrom")
	vrt.Assert(idx2 != nil, "index-read")
	var b2 bytes.Buffer
	err = WriteTo(&b2, idx2)
	vrt.Assert(err == nil, "WriteTo-2")
	second := b2.Bytes()
	vrt.Assert(len(first) == len(second), "same-length-bytes")
	same := true
	for i := range first {
		same = vrt.And(same, first[i] == second[i])
	}
	vrt.Assert(same, "identical-bytes")
	vrt.Assert(idx2.Format == idx.Format, "format-kept")
	vrt.Assert(idx2.ZeroBased == idx.ZeroBased, "zerobased-kept")
	vrt.Assert(idx2.NameColumn == idx.NameColumn, "namecol-kept")
	vrt.Assert(idx2.BeginColumn == idx.BeginColumn, "begcol-kept")
	vrt.Assert(idx2.EndColumn == idx.EndColumn, "endcol-kept")
	vrt.Assert(idx2.MetaChar == idx.MetaChar, "meta-kept")
	vrt.Assert(idx2.Skip == idx.Skip, "skip-kept")
	vrt.Assert(idx2.NumRefs() == idx.NumRefs(), "NumRefs")
	names := idx2.Names()
	vrt.Assert(len(names) == len(idx.Names()), "name-count")
	for i := range names {
		vrt.Assert(names[i] == idx.Names()[i], "names-kept")
	}
	for id := 0; id < idx2.NumRefs(); id++ {
		var mapped, unmapped uint64
		for _, r := range recs {
			if r.ref == id {
				if r.mapped {
					mapped++
				} else {
					unmapped++
				}
			}
		}
		st, ok := idx2.ReferenceStats(id)
		vrt.Assert(ok, "stats-present")
		vrt.Assert(st.Mapped == mapped, "mapped-count")
		vrt.Assert(st.Unmapped == unmapped, "unmapped-count")
	}
	qref := vrt.Choice("qref", R)
	beg := vrt.Int("qbeg")
	end := vrt.Int("qend")
	vrt.Assume(beg >= 0)
	vrt.Assume(beg < end)
	vrt.Assume(end <= T*internal.TileWidth)
	c1, e1 := idx.Chunks(verifNames[qref], beg, end)
	c2, e2 := idx2.Chunks(verifNames[qref], beg, end)
	vrt.Assert((e1 == nil) == (e2 == nil), "same-error-after-reread")
	if e1 == nil && e2 == nil {
		vrt.Assert(len(c1) == len(c2), "same-chunk-count-after-reread")
		ok := true
		for i := range c1 {
			if i < len(c2) {
				ok = vrt.And(ok, vrt.And(verifVO(c1[i].Begin) == verifVO(c2[i].Begin), verifVO(c1[i].End) == verifVO(c2[i].End)))
			}
		}
		vrt.Assert(ok, "same-chunks-after-reread")
	}
	vrt.Reach("end")
}
