package tabix

import (
	"github.com/biogo/hts/bgzf"
	"github.com/biogo/hts/internal"
	"github.com/biogo/hts/internal/vrt"
)

type verifRec struct {
	name           string
	ref            int
	start, end     int
	placed, mapped bool
	chunk          bgzf.Chunk
}

func (r *verifRec) RefName() string { return r.name }
func (r *verifRec) Start() int      { return r.start }
func (r *verifRec) End() int        { return r.end }

var verifNames = []string{"a", "b", "ab"}

func verifVO(o bgzf.Offset) int64 { return o.File<<16 | int64(o.Block) }

// C04 (tabix): records grouped by reference name, sorted by start within a name.
func VerifH_tabix_index_complete() {
	K := vrt.Param("K", 2)
	T := vrt.Param("T", 2)
	R := vrt.Param("R", 2)
	k := 1 + vrt.Choice("nrec", K)
	idx := New()
	recs := make([]*verifRec, k)
	var prevEnd int64
	for i := range recs {
		r := &verifRec{}
		r.ref = 0
		if i > 0 {
			r.ref = recs[i-1].ref
			if r.ref+1 < R && vrt.Choice("nextref", 2) == 1 {
				r.ref++
			}
		}
		r.name = verifNames[r.ref]
		r.placed = true
		r.mapped = vrt.Bool("mapped")
		r.start = vrt.Int("start")
		r.end = vrt.Int("end")
		vrt.Assume(r.start >= 0)
		vrt.Assume(r.start < r.end)
		vrt.Assume(r.end <= T*internal.TileWidth)
		if i > 0 && recs[i-1].ref == r.ref {
			vrt.Assume(recs[i-1].start <= r.start)
		}
		b := vrt.Int64("cbeg")
		e := vrt.Int64("cend")
		vrt.Assume(b >= prevEnd)
		vrt.Assume(b < e)
		vrt.Assume(e < 1<<40)
		prevEnd = e
		r.chunk = bgzf.Chunk{Begin: bgzf.Offset{File: b >> 16, Block: uint16(b)}, End: bgzf.Offset{File: e >> 16, Block: uint16(e)}}
		recs[i] = r
		err := idx.Add(r, r.chunk, r.placed, r.mapped)
		vrt.Assert(err == nil, "Add-sorted-never-fails")
	}
	qref := vrt.Choice("qref", R)
	beg := vrt.Int("qbeg")
	end := vrt.Int("qend")
	vrt.Assume(beg >= 0)
	vrt.Assume(beg < end)
	vrt.Assume(end <= T*internal.TileWidth)
	chunks, err := idx.Chunks(verifNames[qref], beg, end)
	for _, r := range recs {
		hit := vrt.And(r.ref == qref, vrt.And(r.start < end, beg < r.end))
		covered := false
		if err == nil {
			for _, c := range chunks {
				covered = vrt.Or(covered, vrt.And(verifVO(c.Begin) <= verifVO(r.chunk.Begin), verifVO(r.chunk.End) <= verifVO(c.End)))
			}
		}
		vrt.Assert(vrt.Implies(hit, covered), "overlapping-record-covered")
	}
	vrt.Assert(idx.NumRefs() <= R, "one-reference-per-name")
	vrt.Reach("end")
}
