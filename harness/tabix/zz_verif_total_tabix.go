package tabix

import (
	"bytes"

	"github.com/biogo/hts/internal/vrt"
)

// C11: tabix.ReadFrom over arbitrary bytes after the magic.
func VerifH_total_tabix_readfrom() {
	vrt.LenientFmt(true)
	// a query inside the indexable range, a few tiles wide
	beg := vrt.Int("beg")
	end := vrt.Int("end")
	vrt.Assume(beg >= 0)
	vrt.Assume(beg < end)
	vrt.Assume(end <= 1<<29)
	vrt.Assume(end-beg <= 1<<15)
	N := vrt.Param("IDXLEN", 40)
	data := append([]byte{'T', 'B', 'I', 1}, vrt.Bytes("data", N)...)
	n := vrt.Int("len")
	vrt.Assume(n >= 0)
	vrt.Assume(n <= len(data))
	idx, err := ReadFrom(bytes.NewReader(data[:n]))
	if err != nil || idx == nil {
		vrt.Reach("error")
		return
	}
	for _, name := range idx.Names() {
		_, _ = idx.Chunks(name, beg, end)
	}
	if idx.NumRefs() > 0 {
		_, _ = idx.ReferenceStats(0)
	}
	_, _ = idx.Unmapped()
	var out bytes.Buffer
	_ = WriteTo(&out, idx)
	vrt.Reach("ok")
}
