package index

import (
	"github.com/biogo/hts/bgzf"
	"github.com/biogo/hts/internal/vrt"
)

func verifVO(o bgzf.Offset) int64 { return o.File<<16 | int64(o.Block) }

// verifChunks returns n<=N chunks with Begin<=End, sorted by begin virtual offset.
func verifChunks() []bgzf.Chunk {
	N := vrt.Param("N", 5)
	n := vrt.Choice("n", N+1)
	cs := make([]bgzf.Chunk, n)
	for i := range cs {
		bf := vrt.Int64("bf")
		ef := vrt.Int64("ef")
		vrt.Assume(bf >= 0)
		vrt.Assume(bf < 1<<47)
		vrt.Assume(ef >= 0)
		vrt.Assume(ef < 1<<47)
		cs[i].Begin = bgzf.Offset{File: bf, Block: vrt.Uint16("bb")}
		cs[i].End = bgzf.Offset{File: ef, Block: vrt.Uint16("eb")}
		vrt.Assume(verifVO(cs[i].Begin) <= verifVO(cs[i].End))
		if i > 0 {
			vrt.Assume(verifVO(cs[i-1].Begin) <= verifVO(cs[i].Begin))
		}
	}
	return cs
}

func verifCovered(cs []bgzf.Chunk, x int64) bool {
	in := false
	for _, c := range cs {
		in = vrt.Or(in, vrt.And(verifVO(c.Begin) <= x, x < verifVO(c.End)))
	}
	return in
}

func verifSorted(cs []bgzf.Chunk) bool {
	ok := true
	for i := 1; i < len(cs); i++ {
		ok = vrt.And(ok, verifVO(cs[i-1].Begin) <= verifVO(cs[i].Begin))
	}
	return ok
}

func verifSame(a, b []bgzf.Chunk) bool {
	if len(a) != len(b) {
		return false
	}
	ok := true
	for i := range a {
		ok = vrt.And(ok, vrt.And(verifVO(a[i].Begin) == verifVO(b[i].Begin), verifVO(a[i].End) == verifVO(b[i].End)))
	}
	return ok
}

func verifClone(cs []bgzf.Chunk) []bgzf.Chunk {
	out := make([]bgzf.Chunk, len(cs))
	copy(out, cs)
	return out
}

// common obligations: sorted output, coverage of every input position (Skolem x), idempotence.
func verifCommon(s MergeStrategy, in, snap []bgzf.Chunk) []bgzf.Chunk {
	out := s(in)
	vrt.Assert(verifSorted(out), "output-sorted")
	x := vrt.Int64("x")
	vrt.Assert(vrt.Implies(verifCovered(snap, x), verifCovered(out, x)), "coverage-kept")
	keep := verifClone(out)
	again := s(out)
	vrt.Assert(verifSame(again, keep), "idempotent")
	return keep
}

// C17: Identity.
func VerifH_strategy_identity() {
	in := verifChunks()
	snap := verifClone(in)
	out := verifCommon(Identity, in, snap)
	vrt.Assert(verifSame(out, snap), "identity-unchanged")
	vrt.Reach("end")
}

// C17: Adjacent covers exactly the input's positions with pairwise separated chunks.
func VerifH_strategy_adjacent() {
	in := verifChunks()
	snap := verifClone(in)
	out := verifCommon(Adjacent, in, snap)
	x := vrt.Int64("y")
	vrt.Assert(vrt.Implies(verifCovered(out, x), verifCovered(snap, x)), "adjacent-exact-cover")
	sep := true
	for j := 1; j < len(out); j++ {
		sep = vrt.And(sep, verifVO(out[j-1].End) < verifVO(out[j].Begin))
	}
	vrt.Assert(sep, "adjacent-separated")
	if len(snap) == 0 {
		vrt.Assert(len(out) == 0, "adjacent-empty")
	}
	vrt.Reach("end")
}

// C17: Squash returns the single enclosing chunk.
func VerifH_strategy_squash() {
	in := verifChunks()
	snap := verifClone(in)
	out := verifCommon(Squash, in, snap)
	if len(snap) == 0 {
		vrt.Assert(len(out) == 0, "squash-empty")
		vrt.Reach("empty")
		return
	}
	vrt.Assert(len(out) == 1, "squash-single")
	maxEnd := verifVO(snap[0].End)
	for _, c := range snap[1:] {
		e := verifVO(c.End)
		maxEnd = int64(vrt.Ite(e > maxEnd, int(e), int(maxEnd)))
	}
	vrt.Assert(verifVO(out[0].Begin) == verifVO(snap[0].Begin), "squash-begin=min")
	vrt.Assert(verifVO(out[0].End) == maxEnd, "squash-end=max")
	vrt.Reach("end")
}

// C17: a Compressor leaves no two neighbours closer than its threshold.
func VerifH_strategy_compressor() {
	near := vrt.Int64("near")
	vrt.Assume(near >= 0)
	vrt.Assume(near < 1<<47)
	in := verifChunks()
	snap := verifClone(in)
	out := verifCommon(CompressorStrategy(near), in, snap)
	far := true
	for j := 1; j < len(out); j++ {
		far = vrt.And(far, out[j-1].End.File+near < out[j].Begin.File)
	}
	vrt.Assert(far, "compressor-threshold")
	vrt.Reach("end")
}
