package index

import (
	"bytes"
	"io"

	"github.com/biogo/hts/bgzf"
	"github.com/biogo/hts/internal/vrt"
)

type verifMem struct {
	base int64 // file offset of the member
	n    int   // payload length
	cum  int   // position in the data of the member's first payload byte
}

// verifMemberBases walks the member headers (RFC 1952 + BC subfield) to find the file offsets.
func verifMemberBases(stream []byte) []int64 {
	var out []int64
	for off := 0; off+18 <= len(stream); {
		b := stream[off:]
		xlen := int(b[10]) | int(b[11])<<8
		size := -1
		for x := b[12 : 12+xlen]; len(x) >= 4; {
			slen := int(x[2]) | int(x[3])<<8
			if x[0] == 'B' && x[1] == 'C' && slen == 2 {
				size = (int(x[4]) | int(x[5])<<8) + 1
			}
			x = x[4+slen:]
		}
		if size <= 0 {
			break
		}
		out = append(out, int64(off))
		off += size
	}
	return out
}

// verifCRStream writes M members with explored payload lengths and symbolic contents.
func verifCRStream() (stream, data []byte, mems []verifMem) {
	M := 1 + vrt.Choice("members", vrt.Param("M", 3))
	var sink bytes.Buffer
	w := bgzf.NewWriter(&sink, 1)
	var lens []int
	for j := 0; j < M; j++ {
		n := []int{2, bgzf.BlockSize, 1}[vrt.Choice("mlen", vrt.Param("MLENS", 3))]
		b := vrt.Bytes("payload", n)
		w.Write(b)
		w.Flush()
		data = append(data, b...)
		lens = append(lens, n)
	}
	vrt.Assert(w.Close() == nil, "writer-close")
	stream = sink.Bytes()
	cum := 0
	for j, base := range verifMemberBases(stream) {
		n := 0
		if j < len(lens) {
			n = lens[j]
		}
		mems = append(mems, verifMem{base: base, n: n, cum: cum})
		cum += n
	}
	return stream, data, mems
}

// verifOffsetAt chooses a virtual offset denoting data position p. A position at a block
// end has two spellings, (base,len) and (next base,0); with FORMS=1 both are explored for
// chunk ends, and chunk begins use the spelling a reader reports (first byte's block).
func verifOffsetAt(mems []verifMem, p int, isEnd bool, total int) bgzf.Offset {
	var cands []bgzf.Offset
	for _, m := range mems {
		if m.n == 0 {
			continue
		}
		o := p - m.cum
		if o < 0 || o > m.n {
			continue
		}
		if o == m.n && !isEnd && vrt.Param("BFORMS", 0) == 0 {
			continue
		}
		if o == 0 && isEnd && p != 0 && vrt.Param("FORMS", 1) == 0 {
			continue
		}
		cands = append(cands, bgzf.Offset{File: m.base, Block: uint16(o)})
	}
	if len(cands) == 0 {
		// begin at the very end of the data: only as the end spelling of the last block
		for _, m := range mems {
			if m.n != 0 && p-m.cum == m.n {
				cands = append(cands, bgzf.Offset{File: m.base, Block: uint16(m.n)})
			}
		}
	}
	if len(cands) == 1 {
		return cands[0]
	}
	return cands[vrt.Choice("form", len(cands))]
}

// C13-H-chunkreader: a ChunkReader over ordered non-overlapping chunks with arbitrary
// boundaries returns exactly the bytes between each Begin and End, concatenated, then io.EOF.
func VerifH_chunkreader_spans() {
	rd := vrt.Param("rd", 1)
	stream, data, mems := verifCRStream()
	K := 1 + vrt.Choice("nchunks", vrt.Param("K", 2))
	var chunks []bgzf.Chunk
	var want []byte
	lo := 0
	for k := 0; k < K; k++ {
		vrt.Assume(lo < len(data))
		b := lo + vrt.Choice("begin", len(data)-lo)
		e := b + 1 - vrt.Param("EMPTY", 0) + vrt.Choice("end", len(data)-b+vrt.Param("EMPTY", 0))
		chunks = append(chunks, bgzf.Chunk{Begin: verifOffsetAt(mems, b, false, len(data)), End: verifOffsetAt(mems, e, true, len(data))})
		want = append(want, data[b:e]...)
		lo = e
	}
	r, err := bgzf.NewReader(bytes.NewReader(stream), rd)
	vrt.Assert(err == nil, "NewReader")
	cr, err := NewChunkReader(r, chunks)
	vrt.Assert(err == nil, "NewChunkReader")
	bufn := []int{1, 2, 3, bgzf.BlockSize + 2}[vrt.Choice("buf", 4)]
	var got []byte
	var rerr error
	for calls := 0; calls < 2*len(data)+4*K+4; calls++ {
		p := make([]byte, bufn)
		n, err := cr.Read(p)
		got = append(got, p[:n]...)
		if err != nil {
			rerr = err
			break
		}
	}
	vrt.Assert(rerr == io.EOF, "chunk-reader-ends-with-EOF")
	vrt.Assert(bytes.Equal(got, want), "chunk-reader-returns-exactly-the-chunk-bytes")
	cr.Close()
	r.Close()
	vrt.Reach("end")
}
