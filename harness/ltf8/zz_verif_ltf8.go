package ltf8

import "github.com/biogo/hts/internal/vrt"

// C20-H1 (LTF-8): round trip over all int64 values.
func VerifH_ltf8_roundtrip() {
	v := vrt.Int64("v")
	var b [9]byte
	n := Encode(b[:], v)
	vrt.Assert(n == Len(v), "n==Len")
	d, m, ok := Decode(b[:n])
	vrt.Assert(ok, "decode-ok")
	vrt.Assert(m == n, "decode-n")
	vrt.Assert(d == v, "roundtrip-value")
	vrt.Reach("end")
}

// specLTF8 is written from CRAM v3 section 2.3 (LTF-8): the number of leading
// one bits of the first byte gives the number of following bytes (0..8), the
// remaining bits of the first byte hold the most significant payload bits.
func specLTF8(u uint64) (out [9]byte, n int) {
	n = 9
	for k := 1; k <= 8; k++ {
		if u>>(7*uint(k)) == 0 {
			n = k
			break
		}
	}
	// prefix: n-1 one bits followed by a zero (for n<=8)
	var prefix byte
	for i := 0; i < n-1; i++ {
		prefix |= 0x80 >> uint(i)
	}
	rest := uint(8 * (n - 1))
	if n <= 8 {
		out[0] = prefix | byte(u>>rest)
	} else {
		out[0] = 0xff
	}
	for i := 1; i < n; i++ {
		out[i] = byte(u >> (8 * uint(n-1-i)))
	}
	return
}

// C20-H2 (LTF-8): bytes equal the specification's encoding.
func VerifH_ltf8_specbytes() {
	v := vrt.Int64("v")
	var b [9]byte
	n := Encode(b[:], v)
	want, wn := specLTF8(uint64(v))
	vrt.Assert(n == wn, "spec-length")
	for i := 0; i < wn; i++ {
		vrt.Assert(b[i] == want[i], "spec-byte")
	}
	vrt.Reach("end")
}

// C20-H3 (LTF-8): decode totality and no over-read.
func VerifH_ltf8_decode_total() {
	buf := vrt.Bytes("b", 10)
	l := vrt.Int("len")
	vrt.Assume(0 <= l)
	vrt.Assume(l <= 10)
	v, n, ok := Decode(buf[:l])
	if l == 0 {
		vrt.Assert(n == 0, "empty-n")
		vrt.Assert(!ok, "empty-ok")
		vrt.Assert(v == 0, "empty-v")
		vrt.Reach("empty")
		return
	}
	want := 1
	for bit := byte(0x80); bit != 0 && buf[0]&bit != 0; bit >>= 1 {
		want++
	}
	vrt.Assert(n == want, "announced-length")
	vrt.Assert(ok == (l >= n), "ok-iff-enough-bytes")
	if ok {
		v2, n2, ok2 := Decode(buf[:n])
		vrt.Assert(ok2, "prefix-ok")
		vrt.Assert(n2 == n, "prefix-n")
		vrt.Assert(v2 == v, "no-read-beyond-n")
		var e [9]byte
		k := Encode(e[:], v)
		v3, _, ok3 := Decode(e[:k])
		vrt.Assert(ok3, "reencode-ok")
		vrt.Assert(v3 == v, "reencode-value")
		vrt.Reach("ok")
	} else {
		vrt.Assert(v == 0, "fail-value-zero")
		vrt.Reach("short")
	}
}
