package cram

import (
	"io"

	"github.com/biogo/hts/cram/encoding/itf8"
	"github.com/biogo/hts/cram/encoding/ltf8"
	"github.com/biogo/hts/internal/vrt"
)

// verifReader serves data[:n] with arbitrary short reads and counts bytes consumed.
type verifReader struct {
	data []byte
	n    int
	pos  int
}

func (r *verifReader) Read(p []byte) (int, error) {
	if r.pos >= r.n {
		return 0, io.EOF
	}
	if len(p) == 0 {
		return 0, nil
	}
	avail := r.n - r.pos
	if avail > len(p) {
		avail = len(p)
	}
	k := vrt.Int("short")
	vrt.Assume(k >= 1)
	vrt.Assume(k <= avail)
	copy(p[:k], r.data[r.pos:r.pos+k])
	r.pos += k
	return k, nil
}

// C20-H4: the stream readers consume exactly the announced length and agree with Decode.
func VerifH_cram_itf8_stream() {
	data := vrt.Bytes("b", 6)
	n := vrt.Choice("avail", 7)
	src := &verifReader{data: data, n: n}
	er := &errorReader{r: src}
	v := er.itf8()
	want, wn, ok := itf8.Decode(data[:n])
	if ok {
		vrt.Assert(er.err == nil, "no-error-when-enough")
		vrt.Assert(v == want, "stream-value==Decode")
		vrt.Assert(src.pos == wn, "consumed==announced")
		vrt.Reach("ok")
	} else {
		vrt.Assert(er.err != nil, "error-when-short")
		vrt.Assert(v == 0, "zero-on-error")
		vrt.Reach("short")
	}
}

func VerifH_cram_ltf8_stream() {
	data := vrt.Bytes("b", 10)
	n := vrt.Choice("avail", 11)
	src := &verifReader{data: data, n: n}
	er := &errorReader{r: src}
	v := er.ltf8()
	want, wn, ok := ltf8.Decode(data[:n])
	if ok {
		vrt.Assert(er.err == nil, "no-error-when-enough")
		vrt.Assert(v == want, "stream-value==Decode")
		vrt.Assert(src.pos == wn, "consumed==announced")
		vrt.Reach("ok")
	} else {
		vrt.Assert(er.err != nil, "error-when-short")
		vrt.Assert(v == 0, "zero-on-error")
		vrt.Reach("short")
	}
}
