package csi

import (
	"bytes"

	"github.com/biogo/hts/bgzf"
	"github.com/biogo/hts/internal/vrt"
)

func verifSameChunks(a, b []bgzf.Chunk) bool {
	if len(a) != len(b) {
		return false
	}
	ok := true
	for i := range a {
		ok = vrt.And(ok, vrt.And(vOffset(a[i].Begin) == vOffset(b[i].Begin), vOffset(a[i].End) == vOffset(b[i].End)))
	}
	return ok
}

// C15 (CSI): write -> read -> write gives identical bytes, identical answers and statistics,
// for versions 1 and 2 and arbitrary auxiliary data.
func VerifH_csi_roundtrip() {
	idx, limit := verifCSI()
	idx.Version = byte(1 + vrt.Choice("version", 2))
	naux := vrt.Choice("naux", 4)
	if naux > 0 {
		idx.Auxilliary = vrt.Bytes("aux", naux)
	}
	recs := verifRecords(limit)
	for _, r := range recs {
		err := idx.Add(r, r.chunk, r.mapped, r.placed)
		vrt.Assert(err == nil, "Add-sorted-never-fails")
	}
	var b1 bytes.Buffer
	err := WriteTo(&b1, idx)
	vrt.Assert(err == nil, "WriteTo")
	first := append([]byte(nil), b1.Bytes()...)
	idx2, err := ReadFrom(&b1)
	vrt.Assert(err == nil, "ReadFrom")
	vrt.Assert(idx2 != nil, "index-read")
	var b2 bytes.Buffer
	err = WriteTo(&b2, idx2)
	vrt.Assert(err == nil, "WriteTo-2")
	second := b2.Bytes()
	vrt.Assert(len(first) == len(second), "same-length-bytes")
	same := true
	for i := range first {
		same = vrt.And(same, first[i] == second[i])
	}
	vrt.Assert(same, "identical-bytes")
	vrt.Assert(idx2.Version == idx.Version, "version-kept")
	vrt.Assert(len(idx2.Auxilliary) == naux, "aux-length-kept")
	for i := 0; i < naux; i++ {
		vrt.Assert(idx2.Auxilliary[i] == idx.Auxilliary[i], "aux-kept")
	}
	vrt.Assert(idx2.NumRefs() == idx.NumRefs(), "NumRefs")
	var unplaced uint64
	for _, r := range recs {
		if !r.placed {
			unplaced++
		}
	}
	n, ok := idx2.Unmapped()
	vrt.Assert(ok, "unplaced-count-present")
	vrt.Assert(n == unplaced, "unplaced-count")
	for id := 0; id < idx2.NumRefs(); id++ {
		var mapped, unmapped uint64
		var firstR, lastR *verifRec
		for _, r := range recs {
			if r.placed && r.rid == id {
				if firstR == nil {
					firstR = r
				}
				lastR = r
				if r.mapped {
					mapped++
				} else {
					unmapped++
				}
			}
		}
		st, ok := idx2.ReferenceStats(id)
		vrt.Assert(ok == (firstR != nil), "stats-present-iff-records")
		if ok {
			vrt.Assert(st.Mapped == mapped, "mapped-count")
			vrt.Assert(st.Unmapped == unmapped, "unmapped-count")
			vrt.Assert(vOffset(st.Chunk.Begin) == vOffset(firstR.chunk.Begin), "span-begin")
			vrt.Assert(vOffset(st.Chunk.End) == vOffset(lastR.chunk.End), "span-end")
		}
	}
	R := vrt.Param("R", 2)
	W := vrt.Param("W", 2)
	ref := vrt.Choice("qref", R)
	beg := vrt.Int("qbeg")
	end := vrt.Int("qend")
	vrt.Assume(beg >= 0)
	vrt.Assume(beg < end)
	vrt.Assume(end <= limit)
	vrt.Assume(((end-1)>>idx.minShift)-(beg>>idx.minShift) < W)
	vrt.Assert(verifSameChunks(idx.Chunks(ref, beg, end), idx2.Chunks(ref, beg, end)), "same-chunks-after-reread")
	vrt.Reach("end")
}
