package csi

import (
	"bytes"

	"github.com/biogo/hts/internal/vrt"
)

// C11: csi.ReadFrom over arbitrary bytes after the magic.
func VerifH_total_csi_readfrom() {
	vrt.LenientFmt(true)
	// a query inside the indexable range, a few tiles wide
	beg := vrt.Int("beg")
	end := vrt.Int("end")
	vrt.Assume(beg >= 0)
	vrt.Assume(beg < end)
	vrt.Assume(end <= 1<<29)
	vrt.Assume(end-beg <= 1<<15)
	N := vrt.Param("IDXLEN", 24)
	data := append([]byte{'C', 'S', 'I'}, vrt.Bytes("data", N)...)
	n := vrt.Int("len")
	vrt.Assume(n >= 0)
	vrt.Assume(n <= len(data))
	idx, err := ReadFrom(bytes.NewReader(data[:n]))
	if err != nil || idx == nil {
		vrt.Reach("error")
		return
	}
	// Chunks iterates depth+1 levels and 2^(3*depth) bins: only geometries of
	// realistic size are queried (a file may announce depth up to 2^31-1;
	// that loop length is outside this check)
	if idx.NumRefs() > 0 && idx.depth <= 6 && idx.minShift >= 12 && idx.minShift <= 31 {
		_ = idx.Chunks(0, beg, end)
		_, _ = idx.ReferenceStats(0)
	}
	_, _ = idx.Unmapped()
	var out bytes.Buffer
	_ = WriteTo(&out, idx)
	vrt.Reach("ok")
}
