package csi

import "github.com/biogo/hts/internal/vrt"

// htsReg2bin transcribes htslib's hts_reg2bin (hts.h):
//
//	int l, s = min_shift, t = ((1<<((n_lvls<<1) + n_lvls)) - 1) / 7;
//	for (--end, l = n_lvls; l > 0; --l, s += 3, t -= 1<<((l<<1)+l))
//	    if (beg>>s == end>>s) return t + (beg>>s);
//	return 0;
func htsReg2bin(beg, end int64, minShift, nLvls int) int64 {
	s := uint(minShift)
	t := int64(((1 << uint(3*nLvls)) - 1) / 7)
	end--
	for l := nLvls; l > 0; {
		if beg>>s == end>>s {
			return t + (beg >> s)
		}
		l--
		s += 3
		t -= 1 << uint(3*l)
	}
	return 0
}

// htsReg2bins transcribes htslib's hts_reg2bins.
func htsReg2bins(beg, end int64, minShift, nLvls int) []int64 {
	var list []int64
	s := uint(minShift + 3*nLvls)
	end--
	t := int64(0)
	for l := 0; l <= nLvls; l++ {
		b := t + (beg >> s)
		e := t + (end >> s)
		for i := b; i <= e; i++ {
			list = append(list, i)
		}
		s -= 3
		t += 1 << uint(3*l)
	}
	return list
}

// verifGeometry picks a CSI geometry: depth 1..D (or the fixed "depth"
// parameter when the driver splits the work), minShift 0..31 either as one
// symbolic value or, where symbolic shift amounts make the bin-list queries
// slow, as an explored choice (every value is still decided by the solver).
func verifGeometry(symbolicShift bool) (minShift, depth int, limit int64) {
	D := vrt.Param("D", 6)
	depth = vrt.Param("depth", 0)
	if depth == 0 {
		depth = 1 + vrt.Choice("depth", D)
	}
	if symbolicShift {
		minShift = vrt.Int("minShift")
		vrt.Assume(minShift >= 0)
		vrt.Assume(minShift <= 31)
	} else {
		// MS = number of minShift values explored, in the order 14, 0, 1, 2, ... 31
		k := vrt.Choice("minShift", vrt.Param("MS", 32))
		switch {
		case k == 0:
			minShift = 14
		case k <= 14:
			minShift = k - 1
		default:
			minShift = k
		}
	}
	// positions below 2^(minShift+3*depth), capped at 2^44
	vrt.Assume(minShift+3*depth <= 44)
	limit = int64(1) << uint(minShift+3*depth)
	return
}

// C16-H4a: csi.reg2bin equals htslib's hts_reg2bin for every geometry and interval.
func VerifH_csi_reg2bin() {
	minShift, depth, limit := verifGeometry(true)
	beg := vrt.Int64("beg")
	end := vrt.Int64("end")
	vrt.Assume(beg >= 0)
	vrt.Assume(beg < end)
	vrt.Assume(end <= limit)
	got := reg2bin(beg, end, uint32(minShift), uint32(depth))
	want := htsReg2bin(beg, end, minShift, depth)
	vrt.Assert(int64(got) == want, "reg2bin==hts_reg2bin")
	vrt.Reach("end")
}

// C16-H4b: csi.reg2bins equals htslib's hts_reg2bins for queries narrower than W finest tiles.
func VerifH_csi_reg2bins() {
	W := int64(vrt.Param("W", 8))
	minShift, depth, limit := verifGeometry(false)
	beg := vrt.Int64("beg")
	end := vrt.Int64("end")
	vrt.Assume(beg >= 0)
	vrt.Assume(beg < end)
	vrt.Assume(end <= limit)
	vrt.Assume(((end-1)>>uint(minShift))-(beg>>uint(minShift)) < W)
	got := reg2bins(beg, end, uint32(minShift), uint32(depth))
	want := htsReg2bins(beg, end, minShift, depth)
	vrt.Assert(len(got) == len(want), "same-length")
	same := true
	for i := range want {
		same = vrt.And(same, int64(got[i]) == want[i])
	}
	vrt.Assert(same, "same-elements")
	vrt.Reach("end")
}

// C16-H4c: bin consistency for every CSI geometry.
func VerifH_csi_consistency() {
	W := int64(vrt.Param("W", 8))
	minShift, depth, limit := verifGeometry(false)
	rb := vrt.Int64("rb")
	re := vrt.Int64("re")
	qb := vrt.Int64("qb")
	qe := vrt.Int64("qe")
	vrt.Assume(rb >= 0)
	vrt.Assume(rb < re)
	vrt.Assume(re <= limit)
	vrt.Assume(qb >= 0)
	vrt.Assume(qb < qe)
	vrt.Assume(qe <= limit)
	vrt.Assume(rb < qe)
	vrt.Assume(qb < re)
	vrt.Assume(((qe-1)>>uint(minShift))-(qb>>uint(minShift)) < W)
	bin := reg2bin(rb, re, uint32(minShift), uint32(depth))
	found := false
	for _, b := range reg2bins(qb, qe, uint32(minShift), uint32(depth)) {
		found = vrt.Or(found, b == bin)
	}
	vrt.Assert(found, "record-bin-in-query-bins")
	vrt.Reach("end")
}
