package csi

import (
	"github.com/biogo/hts/bgzf"
	"github.com/biogo/hts/bgzf/index"
	"github.com/biogo/hts/internal/vrt"
)

type verifRec struct {
	rid, start, end int
	placed, mapped  bool
	chunk           bgzf.Chunk
}

func (r *verifRec) RefID() int { return r.rid }
func (r *verifRec) Start() int { return r.start }
func (r *verifRec) End() int   { return r.end }

// verifCSI picks a geometry from the list in DESIGN (minShift, depth).
func verifCSI() (*Index, int) {
	var ms, d int
	switch vrt.Param("geom", 0) {
	case 0:
		ms, d = 14, 5
	case 1:
		ms, d = 1, 1
	case 2:
		ms, d = 2, 2
	case 3:
		ms, d = 3, 3
	}
	// largest coordinate accepted by the index's own validity predicate
	return New(ms, d), (1 << uint(ms+3*d)) - 2
}

func verifRecords(limit int) []*verifRec {
	K := vrt.Param("K", 3)
	R := vrt.Param("R", 2)
	k := 1 + vrt.Choice("nrec", K)
	recs := make([]*verifRec, k)
	var prevEnd int64
	for i := range recs {
		r := &verifRec{}
		r.placed = vrt.Bool("placed")
		r.mapped = vrt.Bool("mapped")
		r.rid = vrt.Int("rid")
		r.start = vrt.Int("start")
		r.end = vrt.Int("end")
		vrt.Assume(r.rid >= 0)
		vrt.Assume(r.rid < R)
		vrt.Assume(r.start >= 0)
		vrt.Assume(r.start < r.end)
		vrt.Assume(r.end <= limit)
		if i > 0 {
			p := recs[i-1]
			vrt.Assume(vrt.Or(p.rid < r.rid, vrt.And(p.rid == r.rid, p.start <= r.start)))
		}
		b := vrt.Int64("cbeg")
		e := vrt.Int64("cend")
		vrt.Assume(b >= prevEnd)
		vrt.Assume(b < e)
		vrt.Assume(e < 1<<40)
		prevEnd = e
		r.chunk = bgzf.Chunk{Begin: makeOffset(uint64(b)), End: makeOffset(uint64(e))}
		recs[i] = r
	}
	return recs
}

func verifComplete(idx *Index, recs []*verifRec, limit int, label string) {
	R := vrt.Param("R", 2)
	W := vrt.Param("W", 4)
	ref := vrt.Int("qref")
	beg := vrt.Int("qbeg")
	end := vrt.Int("qend")
	vrt.Assume(ref >= 0)
	vrt.Assume(ref < R)
	vrt.Assume(beg >= 0)
	vrt.Assume(beg < end)
	vrt.Assume(end <= limit)
	vrt.Assume(((end-1)>>idx.minShift)-(beg>>idx.minShift) < W)
	chunks := idx.Chunks(ref, beg, end)
	for _, r := range recs {
		hit := vrt.And(vrt.And(r.placed, r.rid == ref), vrt.And(r.start < end, beg < r.end))
		covered := false
		for _, c := range chunks {
			covered = vrt.Or(covered, vrt.And(vOffset(c.Begin) <= vOffset(r.chunk.Begin), vOffset(r.chunk.End) <= vOffset(c.End)))
		}
		vrt.Assert(vrt.Implies(hit, covered), label)
	}
}

// C04 (CSI): Add in sorted order never fails; Chunks is complete; also after MergeChunks.
func VerifH_csi_index_complete() {
	idx, limit := verifCSI()
	recs := verifRecords(limit)
	for _, r := range recs {
		err := idx.Add(r, r.chunk, r.mapped, r.placed)
		vrt.Assert(err == nil, "Add-sorted-never-fails")
	}
	strategy := vrt.Param("strategy", -1)
	if strategy < 0 {
		strategy = vrt.Choice("strategy", 5)
	}
	switch strategy {
	case 0:
	case 1:
		idx.MergeChunks(index.Identity)
	case 2:
		idx.MergeChunks(index.Adjacent)
	case 3:
		idx.MergeChunks(index.Squash)
	case 4:
		near := vrt.Int64("near")
		vrt.Assume(near >= 0)
		vrt.Assume(near < 1<<40)
		idx.MergeChunks(index.CompressorStrategy(near))
	}
	verifComplete(idx, recs, limit, "overlapping-record-covered")
	vrt.Reach("end")
}
