package sam

import "github.com/biogo/hts/internal/vrt"

// Oracles below are written from the SAM specification (sections 1.4, 4.2 and
// 5.3) in closed form, deliberately without the library's consume table.

const (
	verifRefOps   = 1<<0 | 1<<2 | 1<<3 | 1<<7 | 1<<8 // M D N = X consume the reference
	verifQueryOps = 1<<0 | 1<<1 | 1<<4 | 1<<7 | 1<<8 // M I S = X consume the query
	verifMaxPos   = 1 << 29
)

func verifSpecReg2bin(beg, end int) int {
	end--
	for l := 5; l >= 1; l-- {
		shift := uint(14 + 3*(5-l))
		if beg>>shift == end>>shift {
			return ((1<<uint(3*l))-1)/7 + (beg >> shift)
		}
	}
	return 0
}

// verifCigar builds a CIGAR of k<=K arbitrary operations with types 0..maxType.
func verifCigar(maxType uint32) Cigar {
	K := vrt.Param("K", 4)
	if maxType == 9 {
		K = vrt.Param("KB", 2)
	}
	k := vrt.Choice("nops", K+1)
	c := make(Cigar, k)
	for i := range c {
		op := vrt.Uint32("op")
		vrt.Assume(op&0xf <= maxType)
		c[i] = CigarOp(op)
	}
	return c
}

func verifRefLen(c Cigar) int {
	n := 0
	for _, op := range c {
		n += vrt.Ite((verifRefOps>>(uint32(op)&0xf))&1 == 1, int(uint32(op)>>4), 0)
	}
	return n
}

func verifQueryLen(c Cigar) int {
	n := 0
	for _, op := range c {
		n += vrt.Ite((verifQueryOps>>(uint32(op)&0xf))&1 == 1, int(uint32(op)>>4), 0)
	}
	return n
}

// C16-H5a: End, Len and Bin of a placed record over the nine standard operations.
func VerifH_sam_end_len_bin() {
	c := verifCigar(8)
	pos := vrt.Int("pos")
	flags := Flags(vrt.Uint16("flags"))
	vrt.Assume(pos >= 0)
	vrt.Assume(pos < verifMaxPos)
	r := &Record{Pos: pos, Flags: flags, Cigar: c}
	refLen := verifRefLen(c)
	wantEnd := pos + refLen
	if flags&Unmapped != 0 || len(c) == 0 {
		wantEnd = pos + 1
	}
	vrt.Assert(r.End() == wantEnd, "End==Pos+ref-consuming-length")
	vrt.Assert(r.Len() == wantEnd-pos, "Len==End-Pos")
	vrt.Assert(r.Start() == pos, "Start==Pos")
	// bin: SAM 4.2.1 - reg2bin(pos, end); unmapped reads and reads whose CIGAR
	// consumes no reference bases are treated as having length one.
	binEnd := wantEnd
	if binEnd == pos {
		binEnd = pos + 1
	}
	vrt.Assume(binEnd <= verifMaxPos)
	vrt.Assert(r.Bin() == verifSpecReg2bin(pos, binEnd), "Bin==spec-reg2bin")
	vrt.Reach("end")
}

// C16-H5a': an unplaced read (no reference, Pos -1) has bin 4680 = reg2bin(-1,0).
func VerifH_sam_bin_unplaced() {
	flags := Flags(vrt.Uint16("flags"))
	vrt.Assume(flags&Unmapped != 0)
	r := &Record{Pos: -1, Flags: flags}
	vrt.Assert(r.Bin() == 4680, "unplaced-bin-4680")
	vrt.Assert(r.End() == 0, "unplaced-end-0")
	vrt.Reach("end")
}

// C16-H5b: Lengths and IsValid.
func VerifH_sam_lengths_valid() {
	c := verifCigar(8)
	l := vrt.Int("seqlen")
	vrt.Assume(l >= 0)
	vrt.Assume(l < 1<<33)
	ref, read := c.Lengths()
	vrt.Assert(ref == verifRefLen(c), "Lengths-ref")
	vrt.Assert(read == verifQueryLen(c), "Lengths-read")
	// validity: query length matches; H only first/last; S only with nothing
	// but H between it and an end of the CIGAR.
	want := verifQueryLen(c) == l
	n := len(c)
	for i := 0; i < n; i++ {
		t := uint32(c[i]) & 0xf
		if t == 5 {
			want = vrt.And(want, i == 0 || i == n-1)
		}
		if t == 4 {
			allH := func(lo, hi int) bool {
				ok := true
				for j := lo; j < hi; j++ {
					ok = vrt.And(ok, uint32(c[j])&0xf == 5)
				}
				return ok
			}
			want = vrt.And(want, vrt.Or(allH(0, i), allH(i+1, n)))
		}
	}
	vrt.Assert(c.IsValid(l) == want, "IsValid==spec")
	vrt.Reach("end")
}

// C16-H5c: the B (back) extension as documented in cigar.go: the reference
// position moves left by the length of B, End is the highest position reached.
func VerifH_sam_end_back() {
	c := verifCigar(9)
	pos := vrt.Int("pos")
	vrt.Assume(pos >= 0)
	vrt.Assume(pos < verifMaxPos)
	r := &Record{Pos: pos, Cigar: c}
	p, hi := pos, pos
	for _, op := range c {
		t := uint32(op) & 0xf
		n := int(uint32(op) >> 4)
		p += vrt.Ite((verifRefOps>>t)&1 == 1, n, 0) - vrt.Ite(t == 9, n, 0)
		hi = vrt.Ite(p > hi, p, hi)
	}
	if len(c) == 0 {
		hi = pos + 1
	}
	vrt.Assert(r.End() == hi, "End==highest-position")
	vrt.Reach("end")
}
