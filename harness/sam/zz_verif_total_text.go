package sam

import (
	"io"

	"github.com/biogo/hts/internal/vrt"
)

var verifEOF = io.EOF

// C11: text decoders are total. Any reachable panic is reported by the
// executor; the harness only has to drive the decoder over arbitrary bytes and
// then use whatever came back without error.

func verifBytes(name string, max int) []byte {
	b := vrt.Bytes(name, max)
	n := vrt.Int(name + "_len")
	vrt.Assume(n >= 0)
	vrt.Assume(n <= max)
	return b[:n:n]
}

// ParseAux over "TG:T:" + up to 5 bytes, every type byte (float text excluded:
// strconv.ParseFloat cannot be encoded, see DESIGN).
func VerifH_total_parseaux() {
	vrt.LenientFmt(true)
	text := verifBytes("text", vrt.Param("AUXLEN", 10))
	if len(text) > 3 {
		vrt.Assume(text[3] != 'f')
	}
	if len(text) > 5 {
		vrt.Assume(!(text[3] == 'B' && text[5] == 'f'))
	}
	aux, err := ParseAux(text)
	if err != nil {
		vrt.Reach("error")
		return
	}
	_ = aux.Tag()
	_ = aux.Type()
	_ = aux.Kind()
	_ = aux.Value()
	_ = aux.String()
	_ = samAux(aux).String()
	vrt.Reach("ok")
}

// ParseCigar and the accessors of what it returns.
func VerifH_total_parsecigar() {
	vrt.LenientFmt(true)
	text := verifBytes("text", vrt.Param("CIGLEN", 6))
	c, err := ParseCigar(text)
	if err != nil {
		vrt.Reach("error")
		return
	}
	_ = c.String()
	_, _ = c.Lengths()
	_ = c.IsValid(vrt.Int("seqlen"))
	r := &Record{Pos: 0, Cigar: c}
	_ = r.End()
	_ = r.Bin()
	vrt.Reach("ok")
}

// Every op type a BAM record can carry (4 bits) must be usable by End/Bin/Lengths/String.
func VerifH_total_cigarop() {
	vrt.LenientFmt(true)
	op := CigarOp(vrt.Uint32("op"))
	c := Cigar{op}
	_, _ = c.Lengths()
	_ = c.IsValid(vrt.Int("seqlen"))
	_ = op.Type().String()
	_ = op.Type().Consumes()
	r := &Record{Pos: vrt.Int("pos"), Cigar: c}
	_ = r.End()
	vrt.Reach("ok")
}

// verifField returns 0..max symbolic bytes that contain no separator.
func verifField(name string, max int) []byte {
	f := verifBytes(name, max)
	for _, b := range f {
		vrt.Assume(b != '\t')
		vrt.Assume(b != '\n')
	}
	return f
}

// Header.UnmarshalText over one header line "@XY<TAB>field[<TAB>field]" with
// arbitrary record type and field bytes (DT/UR fields excluded: time and
// net/url are not modelled), followed by the serialisers.
func VerifH_total_headerline() {
	vrt.LenientFmt(true)
	F := vrt.Param("FIELDLEN", 4)
	line := []byte{'@', vrt.Byte("t0"), vrt.Byte("t1")}
	nf := 1 + vrt.Choice("nfields", vrt.Param("NFIELDS", 2))
	for i := 0; i < nf; i++ {
		f := verifField("field", F)
		if len(f) >= 2 {
			vrt.Assume(!(f[0] == 'D' && f[1] == 'T'))
			vrt.Assume(!(f[0] == 'U' && f[1] == 'R'))
		}
		line = append(line, '\t')
		line = append(line, f...)
	}
	if vrt.Choice("newline", 2) == 1 {
		line = append(line, '\n')
	}
	h, _ := NewHeader(nil, nil)
	err := h.UnmarshalText(line)
	if err != nil {
		vrt.Reach("error")
		return
	}
	_, _ = h.MarshalText()
	vrt.Reach("ok")
}

type verifTextSrc struct {
	data []byte
	pos  int
}

func (s *verifTextSrc) Read(p []byte) (int, error) {
	if s.pos >= len(s.data) {
		return 0, verifEOF
	}
	n := copy(p, s.data[s.pos:])
	s.pos += n
	return n, nil
}

// sam.NewReader/Read over a few arbitrary bytes.
func VerifH_total_samreader() {
	vrt.LenientFmt(true)
	data := verifBytes("data", vrt.Param("READERLEN", 3))
	r, err := NewReader(&verifTextSrc{data: data})
	if err != nil {
		vrt.Reach("open-error")
		return
	}
	for i := 0; i < 3; i++ {
		_, err := r.Read()
		if err != nil {
			break
		}
	}
	vrt.Reach("done")
}

// Record.UnmarshalSAM: a valid template line in which one field (chosen by
// the explored "free" index, 12 = two adjacent fields SEQ and QUAL) is replaced
// by arbitrary bytes; on success the record is formatted and measured.
func VerifH_total_unmarshalsam() {
	vrt.LenientFmt(true)
	F := vrt.Param("SAMFIELD", 3)
	tmpl := []string{"r", "0", "*", "0", "0", "*", "*", "0", "0", "*", "*", "XX:i:1"}
	free := vrt.Param("free", -1)
	if free < 0 {
		free = vrt.Choice("free", 13)
	}
	var line []byte
	for i, t := range tmpl {
		if i > 0 {
			line = append(line, '\t')
		}
		switch {
		case i == free || (free == 12 && (i == 9 || i == 10)):
			max := F
			if i == 11 {
				max = F + 5
			}
			fld := verifField("f", max)
			if i == 11 && len(fld) > 3 {
				// float text is strconv.ParseFloat's (not encodable, see DESIGN)
				vrt.Assume(fld[3] != 'f')
			}
			line = append(line, fld...)
		default:
			line = append(line, t...)
		}
	}
	var r Record
	err := r.UnmarshalSAM(nil, line)
	if err != nil {
		vrt.Reach("error")
		return
	}
	_, _ = r.MarshalSAM(0)
	_ = r.End()
	_ = r.Bin()
	_ = r.Strand()
	vrt.Reach("ok")
}

// atoi (CIGAR and header lengths) over digit strings of every length up to 20:
// the power table is indexed by the string length.
func VerifH_total_atoi() {
	vrt.LenientFmt(true)
	b := verifBytes("digits", 20)
	for _, d := range b {
		vrt.Assume(d >= '0')
		vrt.Assume(d <= '9')
	}
	n, err := atoi(b)
	if err == nil {
		vrt.Assert(n >= 0, "atoi-non-negative")
	}
	// and through ParseCigar with an operation appended (lengths that ParseCigar
	// splits into many 2^28-1 pieces only lengthen the loop)
	if err == nil && n < 1<<29 {
		text := append(append([]byte(nil), b...), 'M')
		c, err := ParseCigar(text)
		if err == nil {
			_, _ = c.Lengths()
		}
	}
	vrt.Reach("done")
}
