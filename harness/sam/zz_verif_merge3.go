package sam

import (
	"time"

	"github.com/biogo/hts/internal/vrt"
)

// C07-H-merge: MergeHeaders over K (2..3) headers whose reference lists are drawn from a
// common alphabet (so that they are equal, disjoint, overlapping and differently ordered):
// the merged header keeps the identity invariants and every source reference maps to an
// owned reference with the same name and length.
func VerifH_header_merge_many() {
	K := 2 + vrt.Choice("nheaders", vrt.Param("K", 2))
	var hs []*Header
	var srcRefs [][]*Reference
	for k := 0; k < K; k++ {
		h, err := NewHeader(nil, nil)
		vrt.Assert(err == nil, "NewHeader")
		used := [3]bool{}
		for n := vrt.Choice("nref", 1+vrt.Param("NREF", 2)); n > 0; n-- {
			i := vrt.Choice("name", 3)
			vrt.Assume(!used[i])
			used[i] = true
			// one length per name: references of the same name are the same sequence
			r, err := NewReference(verifNames[i], "", "", 10+i, nil, nil)
			vrt.Assert(err == nil, "NewReference")
			vrt.Assert(h.AddReference(r) == nil, "AddReference")
		}
		if vrt.Choice("rg", 2) == 1 {
			g, err := NewReadGroup(verifNames[vrt.Choice("rgname", 3)], "", "", "", "", "", "", "", "", "", time.Time{}, 0)
			vrt.Assert(err == nil, "NewReadGroup")
			vrt.Assert(h.AddReadGroup(g) == nil, "AddReadGroup")
		}
		hs = append(hs, h)
		srcRefs = append(srcRefs, append([]*Reference(nil), h.Refs()...))
	}
	m, links, err := MergeHeaders(hs)
	vrt.Assert(err == nil, "merge-of-compatible-headers-succeeds")
	verifHeaderInvariants(m, "after-merge")
	vrt.Assert(len(links) == K, "merge-links-per-source")
	for j, refs := range srcRefs {
		vrt.Assert(len(links[j]) == len(refs), "merge-links-length")
		for i, r := range refs {
			l := links[j][i]
			vrt.Assert(l != nil, "merge-link-not-nil")
			vrt.Assert(l.owner == m, "merge-link-owned-by-merged")
			vrt.Assert(l.Name() == r.Name(), "merge-link-same-name")
			vrt.Assert(l.Len() == r.Len(), "merge-link-same-length")
		}
	}
	// every merged reference comes from some source
	for _, r := range m.Refs() {
		found := false
		for _, refs := range srcRefs {
			for _, s := range refs {
				if s.Name() == r.Name() {
					found = true
				}
			}
		}
		vrt.Assert(found, "merged-reference-has-a-source")
	}
	vrt.Reach("end")
}
