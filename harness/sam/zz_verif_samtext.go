package sam

import (
	"bytes"
	"fmt"
	"strconv"

	"github.com/biogo/hts/internal/vrt"
)

func verifTwoRefHeader() (*Header, []*Reference) {
	ra, _ := NewReference("chrA", "", "", 1<<29, nil, nil)
	rb, _ := NewReference("chrB", "", "", 1<<29, nil, nil)
	h, err := NewHeader(nil, []*Reference{ra, rb})
	vrt.Assert(err == nil, "NewHeader")
	return h, []*Reference{ra, rb}
}

// verifNumber: decimal text round trips of fully symbolic 64-bit integers are out
// of reach (division by powers of ten); boundary constants plus a symbolic value below 1000.
func verifNumber(name string, min int, consts ...int) int {
	// at most one numeric field per run is symbolic (driver parameter sym_<name>):
	// each symbolic decimal costs a division chain on the formatting side and a
	// multiplication chain on the parsing side
	n := len(consts)
	if vrt.Param("sym_"+name, 0) == 1 {
		n++
	}
	k := n - 1
	if !(vrt.Param("lean", 0) == 1 && vrt.Param("sym_"+name, 0) == 1) {
		// (in the lean tier the symbolic alternative alone is explored for the chosen field)
		k = verifPick(name+"_class", n, 2)
	}
	if k < len(consts) {
		vrt.Assume(consts[k] >= min)
		return consts[k]
	}
	v := int(vrt.Uint16(name))
	vrt.Assume(v < 1000)
	vrt.Assume(v >= min)
	return v
}

// verifPick explores k alternatives, or only the first "lean" ones in the
// quick tier (lists are ordered with the most demanding values first).
func verifPick(name string, k, lean int) int {
	if vrt.Param("lean", 0) == 1 && k > lean {
		k = lean
	}
	if vrt.Param("auxmode", 0) == 1 {
		k = 1 // the aux variants keep the mandatory fields fixed
	}
	return vrt.Choice(name, k)
}

// verifRecord builds a record expressible in SAM text.
func verifRecord(h *Header, refs []*Reference) *Record {
	r := &Record{}
	// symbolic characters are drawn from small tables (an ite tree over constants):
	// the parser's separator tests then fold without solver calls
	c := "!~A_"[vrt.Byte("namechar")&3]
	r.Name = string([]byte{'r', c})
	if vrt.Param("format", FlagDecimal) == FlagHex {
		// hexadecimal formatting of a symbolic value is not modelled: boundary constants
		r.Flags = []Flags{0xffff, 0, 0x63, 1, 0x10, 0x800, 0xfff}[verifPick("flags", 7, 2)]
	} else if vrt.Param("sym_flags", 0) == 1 {
		r.Flags = Flags(vrt.Uint8("flags")) // a symbolic three digit value (see verifNumber)
	} else {
		r.Flags = []Flags{0xffff, 0, 0x63, 1, 0x10, 0x800, 0xfff}[verifPick("flags", 7, 2)]
	}
	switch []int{1, 0, 2}[verifPick("ref", 3, 3)] {
	case 0:
		r.Pos = -1
	case 1:
		r.Ref = refs[0]
		r.Pos = verifNumber("pos", 0, 0, 1<<29-2)
	case 2:
		r.Ref = refs[1]
		r.Pos = verifNumber("pos", 0, 0, 1<<29-2)
	}
	vrt.Assume(r.Pos < 1<<29)
	if vrt.Param("sym_mapq", 0) == 1 {
		r.MapQ = vrt.Byte("mapq")
	} else {
		r.MapQ = []byte{255, 0, 9, 60}[verifPick("mapq", 4, 2)]
	}
	switch []int{2, 0, 1, 3}[verifPick("mate", 4, 2)] {
	case 0:
		r.MatePos = -1
	case 1:
		r.MateRef = r.Ref
		r.MatePos = 9
		if r.Ref == nil {
			r.MatePos = -1
		}
	case 2:
		r.MateRef = refs[1]
		r.MatePos = verifNumber("matepos", 0, 1<<29-2)
		vrt.Assume(r.MatePos < 1<<29)
	case 3:
		r.MateRef = refs[0]
		r.MatePos = 0
	}
	r.TempLen = verifNumber("tlen", -(1<<31), 0, -1, 1<<31-1, -(1<<31))
	L := verifPick("seqlen", 1+vrt.Param("SEQ", 2), 3)
	if vrt.Param("auxmode", 0) == 1 {
		L = 1
	}
	if L > 0 {
		seq := make([]byte, L)
		for i := range seq {
			seq[i] = "=ACMGRSVTWYHKDBN"[vrt.Byte("base")&15]
		}
		r.Seq = NewSeq(seq)
		switch []int{3, 2, 0, 1}[verifPick("cigar", 4, 3)] {
		case 3: // an operation that consumes no query, at the length limits of one BAM CIGAR word
			big := []int{1<<28 - 1, 1<<28 - 2, 17}[verifPick("cigarbig", 3, 2)]
			r.Cigar = Cigar{NewCigarOp(CigarMatch, 1), NewCigarOp(CigarSkipped, big)}
			if L > 1 {
				r.Cigar = append(r.Cigar, NewCigarOp(CigarMatch, L-1))
			}
		case 0: // no CIGAR
		case 1:
			r.Cigar = Cigar{NewCigarOp(CigarMatch, L)}
		case 2:
			r.Cigar = Cigar{NewCigarOp(CigarSoftClipped, 1), NewCigarOp(CigarMatch, L-1)}
			if L == 1 {
				r.Cigar = Cigar{NewCigarOp(CigarInsertion, 1)}
			}
		}
		if verifPick("qual", 2, 2) == 0 {
			r.Qual = make([]byte, L)
			for i := range r.Qual {
				r.Qual[i] = []byte{0, 1, 41, 93}[vrt.Byte("q")&3]
			}
		} else {
			r.Qual = make([]byte, L)
			for i := range r.Qual {
				r.Qual[i] = 0xff
			}
		}
	}
	if vrt.Param("auxmode", 0) == 1 {
		tag := NewTag("XY")
		var a Aux
		var err error
		switch vrt.Choice("auxtype", 8) {
		case 0:
			ch := "!~A:"[vrt.Byte("auxchar")&3]
			a, err = NewAux(tag, ASCII(ch))
		case 1:
			a, err = NewAux(tag, int8(vrt.Int8("auxi8")))
		case 2:
			a, err = NewAux(tag, uint8(vrt.Uint8("auxu8")))
		case 3:
			v := verifNumber("auxint", -(1<<31), -(1<<31), 1<<31-1, -1, -128, -129, 127, 128, -32768, -32769, 32767, 32768)
			a, err = NewAux(tag, v)
		case 4:
			v := verifNumber("auxuint", 0, 1<<32-1, 1<<31, 65536, 65535, 256, 255, 0)
			a, err = NewAux(tag, uint(v))
		case 5:
			n := vrt.Choice("zlen", 3)
			z := make([]byte, n)
			for i := range z {
				z[i] = " ~:,"[vrt.Byte("z")&3]
			}
			a, err = NewAux(tag, Text(z))
		case 6:
			n := vrt.Choice("hlen", 3)
			a, err = NewAux(tag, Hex(vrt.Bytes("hex", n)))
		case 7:
			n := 1 + vrt.Choice("blen", 2)
			vals := make([]int16, n)
			for i := range vals {
				vals[i] = int16(int8(vrt.Int8("b16")))
			}
			a, err = NewAux(tag, vals)
		}
		vrt.Assert(err == nil, "NewAux")
		r.AuxFields = AuxFields{a}
	}
	return r
}

// verifItoa: decimal text of v. (fmt is a model under the executor; its digit
// arithmetic is shared with the library side, the oracle is about the fields.)
func verifItoa(v int) string { return fmt.Sprintf("%d", v) }

// verifSpecLine formats a record from the SAM specification (section 1.4),
// independently of MarshalSAM (aux fields are appended by the caller).
func verifSpecLine(r *Record, hexFlags bool) []byte {
	var b []byte
	tab := func() { b = append(b, '\t') }
	b = append(b, r.Name...)
	tab()
	if hexFlags {
		b = append(b, "0x"...)
		b = strconv.AppendUint(b, uint64(r.Flags), 16)
	} else {
		b = append(b, verifItoa(int(r.Flags))...)
	}
	tab()
	if r.Ref == nil {
		b = append(b, '*')
	} else {
		b = append(b, r.Ref.Name()...)
	}
	tab()
	b = append(b, verifItoa(r.Pos+1)...)
	tab()
	b = append(b, verifItoa(int(r.MapQ))...)
	tab()
	if len(r.Cigar) == 0 {
		b = append(b, '*')
	}
	for _, op := range r.Cigar {
		b = append(b, verifItoa(op.Len())...)
		b = append(b, "MIDNSHP=XB"[op.Type()])
	}
	tab()
	switch {
	case r.MateRef == nil:
		b = append(b, '*')
	case r.MateRef == r.Ref:
		b = append(b, '=')
	default:
		b = append(b, r.MateRef.Name()...)
	}
	tab()
	b = append(b, verifItoa(r.MatePos+1)...)
	tab()
	b = append(b, verifItoa(r.TempLen)...)
	tab()
	if r.Seq.Length == 0 {
		b = append(b, '*')
	} else {
		b = append(b, r.Seq.Expand()...)
	}
	tab()
	present := false
	for _, q := range r.Qual {
		if q != 0xff {
			present = true
		}
	}
	if !present {
		b = append(b, '*')
	} else {
		for _, q := range r.Qual {
			b = append(b, q+33)
		}
	}
	return b
}

// C06-H-rt: format, parse back, format again; field equality; spec formatter.
func VerifH_sam_text_roundtrip() {
	h, refs := verifTwoRefHeader()
	r := verifRecord(h, refs)
	format := vrt.Param("format", FlagDecimal)
	t1, err := r.MarshalSAM(format)
	vrt.Assert(err == nil, "MarshalSAM")
	// the 11 mandatory fields equal the independent formatter's
	spec := verifSpecLine(r, format == FlagHex)
	vrt.Assert(len(t1) >= len(spec), "line-at-least-mandatory-fields")
	vrt.Assert(bytes.Equal(t1[:len(spec)], spec), "mandatory-fields-match-spec-formatter")
	if len(r.AuxFields) == 0 {
		vrt.Assert(len(t1) == len(spec), "no-extra-text-without-aux")
	} else {
		vrt.Assert(t1[len(spec)] == '\t', "aux-separated-by-tab")
	}
	var r2 Record
	err = r2.UnmarshalSAM(h, t1)
	vrt.Assert(err == nil, "UnmarshalSAM-own-output")
	t2, err := r2.MarshalSAM(format)
	vrt.Assert(err == nil, "MarshalSAM-2")
	vrt.Assert(bytes.Equal(t1, t2), "text-roundtrip-identical")
	vrt.Assert(r2.Name == r.Name, "name")
	vrt.Assert(r2.Flags == r.Flags, "flags")
	vrt.Assert(r2.Ref == r.Ref, "ref")
	vrt.Assert(r2.Pos == r.Pos, "pos")
	vrt.Assert(r2.MapQ == r.MapQ, "mapq")
	vrt.Assert(r2.MateRef == r.MateRef, "materef")
	vrt.Assert(r2.MatePos == r.MatePos, "matepos")
	vrt.Assert(r2.TempLen == r.TempLen, "tlen")
	vrt.Assert(r2.Seq.Length == r.Seq.Length, "seqlen")
	vrt.Assert(bytes.Equal(r2.Seq.Expand(), r.Seq.Expand()), "seq")
	vrt.Assert(len(r2.Cigar) == len(r.Cigar), "cigar-len")
	for i := range r.Cigar {
		vrt.Assert(r2.Cigar[i] == r.Cigar[i], "cigar-op")
	}
	vrt.Assert(len(r2.Qual) == len(r.Qual), "qual-len")
	vrt.Assert(bytes.Equal(r2.Qual, r.Qual), "qual")
	vrt.Assert(len(r2.AuxFields) == len(r.AuxFields), "aux-count")
	vrt.Reach("end")
}

// C06-H-reader: a SAM reader returns every line of its input as one record,
// including a final line without a trailing newline.
func VerifH_sam_reader_lines() {
	nl := []byte{'\n'}
	if vrt.Choice("crlf", 2) == 1 {
		nl = []byte{'\r', '\n'}
	}
	var text []byte
	if vrt.Choice("header", 2) == 1 {
		text = append(text, "@HD\tVN:1.6\tSO:unknown"...)
		text = append(text, nl...)
		text = append(text, "@SQ\tSN:chrA\tLN:1000"...)
		text = append(text, nl...)
	}
	n := 1 + vrt.Choice("nlines", 2)
	final := vrt.Choice("finalNewline", 2) == 1
	for i := 0; i < n; i++ {
		q := vrt.Byte("mapq")
		text = append(text, 'r', byte('0'+i))
		text = append(text, "\t0\tchrA\t"...)
		text = append(text, verifItoa(1+i)...)
		text = append(text, '\t')
		text = append(text, verifItoa(int(q))...)
		text = append(text, "\t1M\t*\t0\t0\tA\t*"...)
		if i < n-1 || final {
			text = append(text, nl...)
		}
	}
	sr, err := NewReader(&verifTextSrc{data: text})
	vrt.Assert(err == nil, "NewReader")
	got := 0
	for i := 0; i < n+1; i++ {
		rec, err := sr.Read()
		if err != nil {
			break
		}
		vrt.Assert(rec.Name == string([]byte{'r', byte('0' + got)}), "records-in-order")
		got++
	}
	vrt.Assert(got == n, "every-line-returned-as-a-record")
	vrt.Reach("end")
}
