package sam

import (
	"bytes"
	"time"

	"github.com/biogo/hts/internal/vrt"
)

var verifNames = []string{"a", "b", "c"}

// verifHeaderInvariants: ids equal indices, names unique, items owned by h.
func verifHeaderInvariants(h *Header, when string) {
	for i, r := range h.Refs() {
		vrt.Assert(r != nil, "ref-not-nil-"+when)
		vrt.Assert(r.ID() == i, "ref-id==index-"+when)
		vrt.Assert(r.owner == h, "ref-owned-"+when)
		for j := 0; j < i; j++ {
			vrt.Assert(h.Refs()[j].Name() != r.Name(), "ref-names-unique-"+when)
		}
	}
	for i, g := range h.RGs() {
		vrt.Assert(g.ID() == i, "rg-id==index-"+when)
		vrt.Assert(g.owner == h, "rg-owned-"+when)
		for j := 0; j < i; j++ {
			vrt.Assert(h.RGs()[j].Name() != g.Name(), "rg-names-unique-"+when)
		}
	}
	for i, p := range h.Progs() {
		vrt.Assert(p.ID() == i, "prog-id==index-"+when)
		vrt.Assert(p.owner == h, "prog-owned-"+when)
		for j := 0; j < i; j++ {
			vrt.Assert(h.Progs()[j].UID() != p.UID(), "prog-uids-unique-"+when)
		}
	}
}

func verifNewRef() *Reference {
	name := verifNames[vrt.Choice("name", 3)]
	ln := vrt.Int("len")
	vrt.Assume(ln >= 1)
	vrt.Assume(ln < 1<<31)
	as := ""
	if vrt.Choice("assembly", 2) == 1 {
		as = "x"
	}
	r, err := NewReference(name, as, "", ln, nil, nil)
	vrt.Assert(err == nil, "NewReference")
	return r
}

// C07-H-edit: identity invariants after every operation of an edit history.
func VerifH_header_edits() {
	L := vrt.Param("L", 3)
	var h *Header
	var err error
	if vrt.Param("init", 0) == 1 {
		// a header built from a list of references
		ra, _ := NewReference("a", "", "", 7, nil, nil)
		rb, _ := NewReference("b", "", "", 8, nil, nil)
		h, err = NewHeader(nil, []*Reference{ra, rb})
	} else {
		h, err = NewHeader(nil, nil)
	}
	vrt.Assert(err == nil, "NewHeader")
	verifHeaderInvariants(h, "initial")
	for step := 0; step < L; step++ {
		op := -1
		if step == 0 {
			op = vrt.Param("op0", -1) // the driver splits the work on the first operation
		}
		if op < 0 {
			op = vrt.Choice("op", 12)
		}
		switch op {
		case 0:
			_ = h.AddReference(verifNewRef())
		case 1:
			if n := len(h.Refs()); n > 0 {
				vrt.Assert(h.RemoveReference(h.Refs()[vrt.Choice("i", n)]) == nil, "remove-listed-reference-succeeds")
			}
		case 2:
			if n := len(h.Refs()); n > 0 {
				_ = h.Refs()[vrt.Choice("i", n)].SetName(verifNames[vrt.Choice("name", 3)])
			}
		case 3:
			rg, err := NewReadGroup(verifNames[vrt.Choice("name", 3)], "", "", "", "", "", "", "", "", "", time.Time{}, 0)
			vrt.Assert(err == nil, "NewReadGroup")
			_ = h.AddReadGroup(rg)
		case 4:
			if n := len(h.RGs()); n > 0 {
				vrt.Assert(h.RemoveReadGroup(h.RGs()[vrt.Choice("i", n)]) == nil, "remove-listed-read-group-succeeds")
			}
		case 5:
			if n := len(h.RGs()); n > 0 {
				_ = h.RGs()[vrt.Choice("i", n)].SetName(verifNames[vrt.Choice("name", 3)])
			}
		case 6:
			_ = h.AddProgram(NewProgram(verifNames[vrt.Choice("name", 3)], "", "", "", ""))
		case 7:
			if n := len(h.Progs()); n > 0 {
				vrt.Assert(h.RemoveProgram(h.Progs()[vrt.Choice("i", n)]) == nil, "remove-listed-program-succeeds")
			}
		case 8:
			if n := len(h.Progs()); n > 0 {
				_ = h.Progs()[vrt.Choice("i", n)].SetUID(verifNames[vrt.Choice("name", 3)])
			}
		case 9:
			h = h.Clone()
		case 10:
			// an additional header line naming a reference from the same alphabet
			line := "@SQ\tSN:" + verifNames[vrt.Choice("name", 3)] + "\tLN:5"
			if vrt.Choice("assembly", 2) == 1 {
				line += "\tAS:x"
			}
			_ = h.UnmarshalText([]byte(line + "\n"))
		case 11:
			h2, _ := NewHeader(nil, nil)
			for k := vrt.Choice("nref2", 3); k > 0; k-- {
				_ = h2.AddReference(verifNewRef())
			}
			srcRefs := [][]*Reference{append([]*Reference(nil), h.Refs()...), append([]*Reference(nil), h2.Refs()...)}
			m, links, err := MergeHeaders([]*Header{h, h2})
			if err == nil {
				verifHeaderInvariants(m, "after-merge")
				for j, refs := range srcRefs {
					vrt.Assert(len(links[j]) == len(refs), "merge-links-length")
					for i, r := range refs {
						l := links[j][i]
						vrt.Assert(l != nil, "merge-link-not-nil")
						vrt.Assert(l.owner == m, "merge-link-owned-by-merged")
						vrt.Assert(l.Name() == r.Name(), "merge-link-same-name")
						vrt.Assert(l.Len() == r.Len(), "merge-link-same-length")
					}
				}
				h = m
			}
		}
		verifHeaderInvariants(h, "after-op")
	}
	vrt.Reach("end")
}

// C07-H-ser: text and binary serialisation round trips for headers built
// through the API (structure explored, lengths symbolic).
func VerifH_header_roundtrip() {
	h, err := NewHeader(nil, nil)
	vrt.Assert(err == nil, "NewHeader")
	if vrt.Choice("hd", 2) == 1 {
		h.Version = "1.6"
		h.SortOrder = SortOrder(vrt.Choice("so", 4))
		h.GroupOrder = GroupOrder(vrt.Choice("go", 4))
	}
	nref := vrt.Choice("nref", 1+vrt.Param("NREF", 2))
	for i := 0; i < nref; i++ {
		// decimal formatting and re-parsing of a fully symbolic length is a chain of
		// 64-bit divisions by powers of ten that no back end decides in time (see
		// DESIGN): boundary constants plus a symbolic two digit value
		var ln int
		switch vrt.Choice("lenclass", 6) {
		case 0:
			ln = 1
		case 1:
			ln = 9
		case 2:
			ln = 10
		case 3:
			ln = 1<<31 - 1
		case 4:
			ln = 1 << 29
		case 5:
			ln = int(vrt.Uint8("len"))
			vrt.Assume(ln >= 1)
			vrt.Assume(ln < 100)
		}
		as, sp := "", ""
		if vrt.Choice("assembly", 2) == 1 {
			as = "x"
		}
		if vrt.Choice("species", 2) == 1 {
			sp = "y"
		}
		r, err := NewReference(verifNames[i], as, sp, ln, nil, nil)
		vrt.Assert(err == nil, "NewReference")
		vrt.Assert(h.AddReference(r) == nil, "AddReference")
	}
	if vrt.Choice("rg", 2) == 1 {
		rg, _ := NewReadGroup("g", "", "d", "", "", "", "", "s", "", "", time.Time{}, vrt.Choice("pi", 2)*100)
		vrt.Assert(h.AddReadGroup(rg) == nil, "AddReadGroup")
	}
	if vrt.Choice("pg", 2) == 1 {
		vrt.Assert(h.AddProgram(NewProgram("p", "n", "", "", "1")) == nil, "AddProgram")
	}
	if vrt.Choice("co", 2) == 1 {
		h.Comments = append(h.Comments, "note")
	}
	t1, err := h.MarshalText()
	vrt.Assert(err == nil, "MarshalText")
	h2, _ := NewHeader(nil, nil)
	vrt.Assert(h2.UnmarshalText(t1) == nil, "UnmarshalText-own-output")
	t2, _ := h2.MarshalText()
	vrt.Assert(bytes.Equal(t1, t2), "text-roundtrip-identical")
	vrt.Assert(len(h2.Refs()) == nref, "refs-kept")
	for i, r := range h2.Refs() {
		vrt.Assert(r.Name() == h.Refs()[i].Name(), "ref-name-kept")
		vrt.Assert(r.Len() == h.Refs()[i].Len(), "ref-len-kept")
		vrt.Assert(r.AssemblyID() == h.Refs()[i].AssemblyID(), "ref-assembly-kept")
		vrt.Assert(r.Species() == h.Refs()[i].Species(), "ref-species-kept")
	}
	vrt.Assert(h2.SortOrder == h.SortOrder, "sort-order-kept")
	vrt.Assert(len(h2.RGs()) == len(h.RGs()), "rgs-kept")
	vrt.Assert(len(h2.Progs()) == len(h.Progs()), "progs-kept")
	vrt.Assert(len(h2.Comments) == len(h.Comments), "comments-kept")
	verifHeaderInvariants(h2, "after-text-roundtrip")
	// binary
	var b1 bytes.Buffer
	vrt.Assert(h.EncodeBinary(&b1) == nil, "EncodeBinary")
	enc1 := append([]byte(nil), b1.Bytes()...)
	h3, _ := NewHeader(nil, nil)
	vrt.Assert(h3.DecodeBinary(&b1) == nil, "DecodeBinary-own-output")
	var b2 bytes.Buffer
	vrt.Assert(h3.EncodeBinary(&b2) == nil, "EncodeBinary-2")
	vrt.Assert(bytes.Equal(enc1, b2.Bytes()), "binary-roundtrip-identical")
	verifHeaderInvariants(h3, "after-binary-roundtrip")
	vrt.Reach("end")
}
