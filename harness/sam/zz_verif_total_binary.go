package sam

import (
	"bytes"

	"github.com/biogo/hts/internal/vrt"
)

// C11: Header.DecodeBinary over arbitrary bytes after the magic (text length,
// text, reference count, reference records all arbitrary).
func VerifH_total_decodebinary() {
	vrt.LenientFmt(true)
	N := vrt.Param("HDRLEN", 20)
	data := append([]byte{'B', 'A', 'M', 1}, vrt.Bytes("data", N)...)
	n := vrt.Int("len")
	vrt.Assume(n >= 0)
	vrt.Assume(n <= len(data))
	h, _ := NewHeader(nil, nil)
	err := h.DecodeBinary(bytes.NewReader(data[:n]))
	if err != nil {
		vrt.Reach("error")
		return
	}
	for _, r := range h.Refs() {
		_ = r.Name()
		_ = r.Len()
		_ = r.ID()
	}
	_, _ = h.MarshalText()
	var out bytes.Buffer
	_ = h.EncodeBinary(&out)
	vrt.Reach("ok")
}
