package bam

import (
	"bytes"
	"errors"
	"io"

	"github.com/biogo/hts/internal/vrt"
	"github.com/biogo/hts/sam"
)

// Scripted inputs for the Merger. Under the symbolic executor (*Reader).Read and
// (*Reader).Header are replaced by verifStubRead / verifStubHeader (declared as
// stubs in props.json) and a Reader is only a key into verifScripts. Natively
// (replay) each script is written as a real BAM stream and read by a real Reader.
type verifScript struct {
	hdr  *sam.Header
	recs []*sam.Record
	fail int // -1: ends with io.EOF; k: the read after k records fails
	pos  int

	refNames, mateNames []string
	placed, mated       []bool
	poss                []int
}

var verifScripts = map[*Reader]*verifScript{}

var verifErrInput = errors.New("verif: injected input failure")

func verifStubRead(r *Reader) (*sam.Record, error) {
	s := verifScripts[r]
	if s.fail >= 0 && s.pos >= s.fail {
		return nil, verifErrInput
	}
	if s.pos < len(s.recs) {
		rec := s.recs[s.pos]
		s.pos++
		return rec, nil
	}
	return nil, io.EOF
}

func verifStubHeader(r *Reader) *sam.Header { return verifScripts[r].hdr }

type verifFailAfter struct {
	r     io.Reader
	limit int
	n     int
}

func (f *verifFailAfter) Read(p []byte) (int, error) {
	if f.n >= f.limit {
		return 0, verifErrInput
	}
	if len(p) > f.limit-f.n {
		p = p[:f.limit-f.n]
	}
	n, err := f.r.Read(p)
	f.n += n
	return n, err
}

func verifMakeReader(s *verifScript) *Reader {
	if vrt.Symbolic() {
		r := &Reader{}
		verifScripts[r] = s
		return r
	}
	var buf bytes.Buffer
	w, err := NewWriter(&buf, s.hdr, 1)
	if err != nil {
		panic(err)
	}
	limit := -1
	for i, rec := range s.recs {
		if i == s.fail {
			w.bg.Flush()
			w.bg.Wait()
			limit = buf.Len()
		}
		if err := w.Write(rec); err != nil {
			panic(err)
		}
	}
	if s.fail == len(s.recs) {
		w.bg.Flush()
		w.bg.Wait()
		limit = buf.Len()
	}
	w.Close()
	var src io.Reader = &buf
	if limit >= 0 {
		src = &verifFailAfter{r: &buf, limit: limit}
	}
	r, err := NewReader(src, 1)
	if err != nil {
		panic(err)
	}
	return r
}

var verifRefNames = []string{"a", "b"}

// verifHeaderFor builds an input header; layout picks the reference lists.
func verifHeaderFor(layout, input int, so sam.SortOrder) *sam.Header {
	var names []string
	switch layout {
	case 0: // equal
		names = []string{"a", "b"}
	case 1: // disjoint
		names = []string{verifRefNames[input%2]}
	case 2: // same names, different order
		if input%2 == 0 {
			names = []string{"a", "b"}
		} else {
			names = []string{"b", "a"}
		}
	case 3: // header order differs from name order
		names = []string{"b", "a"}
	}
	var refs []*sam.Reference
	for _, n := range names {
		r, _ := sam.NewReference(n, "", "", 1000, nil, nil)
		refs = append(refs, r)
	}
	h, err := sam.NewHeader(nil, refs)
	if err != nil {
		panic(err)
	}
	h.Version = "1.6"
	h.SortOrder = so
	return h
}

func verifRecName(input, i int) string {
	return string([]byte{'i', byte('0' + input), 'r', byte('0' + i)})
}

// order key of a record under the declared sort order, relative to header h
func verifLessInHeader(so sam.SortOrder, a, b *sam.Record) bool {
	switch so {
	case sam.QueryName:
		return a.Name < b.Name
	case sam.Coordinate:
		ai, bi := a.Ref.ID(), b.Ref.ID()
		if ai < 0 || bi < 0 {
			return bi < 0 && ai >= 0 // unplaced last
		}
		return ai < bi || (ai == bi && a.Pos < b.Pos)
	}
	return false
}

// C18: merging sorted inputs returns every record once, in order, with inputs'
// relative order kept, references re-linked to the merged header, errors reported.
func VerifH_merger() {
	K := 1 + vrt.Choice("ninputs", vrt.Param("K", 2))
	so := sam.SortOrder(vrt.Param("so", int(sam.Coordinate)))
	layout := vrt.Param("layout", -1)
	if layout < 0 {
		layout = vrt.Choice("layout", 4)
	}
	scripts := make([]*verifScript, K)
	total := 0
	anyFail := false
	for in := 0; in < K; in++ {
		h := verifHeaderFor(layout, in, so)
		n := vrt.Choice("nrecs", 1+vrt.Param("N", 2))
		s := &verifScript{hdr: h, fail: -1}
		for i := 0; i < n; i++ {
			rec := &sam.Record{Name: verifRecName(in, i), MatePos: -1, Pos: -1, Flags: sam.Unmapped,
				Seq: sam.NewSeq([]byte("A")), Qual: []byte{30}}
			ri := vrt.Choice("ref", len(h.Refs())+1) - 1
			if ri >= 0 {
				rec.Ref = h.Refs()[ri]
				rec.Pos = vrt.Int("pos")
				vrt.Assume(rec.Pos >= 0)
				vrt.Assume(rec.Pos < 900)
				rec.Flags = 0
				rec.Cigar = sam.Cigar{sam.NewCigarOp(sam.CigarMatch, 1)}
				if vrt.Choice("mate", 2) == 1 {
					rec.MateRef = h.Refs()[vrt.Choice("materef", len(h.Refs()))]
					rec.MatePos = 5
					rec.Flags = sam.Paired
				}
			}
			if i > 0 {
				// each input is sorted in the declared order (relative to its own header)
				vrt.Assume(!verifLessInHeader(so, rec, s.recs[i-1]))
			}
			s.recs = append(s.recs, rec)
			// the Merger re-links records in place: keep what the source said
			s.refNames = append(s.refNames, rec.Ref.Name())
			s.mateNames = append(s.mateNames, rec.MateRef.Name())
			s.placed = append(s.placed, rec.Ref != nil)
			s.mated = append(s.mated, rec.MateRef != nil)
			s.poss = append(s.poss, rec.Pos)
		}
		if vrt.Param("faults", 0) == 1 && vrt.Choice("fails", 2) == 1 {
			s.fail = vrt.Choice("failat", n+1)
			anyFail = true
		}
		scripts[in] = s
		if s.fail >= 0 {
			total += s.fail
		} else {
			total += n
		}
	}
	readers := make([]*Reader, K)
	for i, s := range scripts {
		readers[i] = verifMakeReader(s)
	}
	custom := func(a, b *sam.Record) bool { return a.Name < b.Name }
	m, err := NewMerger(custom, readers...)
	if err != nil {
		// only an input failing on its first read may make NewMerger fail
		vrt.Assert(anyFail, "NewMerger-ok-without-faults")
		vrt.Reach("open-error")
		return
	}
	mh := m.Header()
	var out []*sam.Record
	var rerr error
	for i := 0; i < total+2; i++ {
		rec, err := m.Read()
		if rec != nil {
			out = append(out, rec)
		}
		if err != nil {
			rerr = err
			break
		}
	}
	vrt.Assert(rerr != nil, "merger-terminates")
	if anyFail {
		vrt.Assert(rerr != io.EOF, "input-error-reported-not-dropped")
	} else {
		vrt.Assert(rerr == io.EOF, "clean-end-is-EOF")
		vrt.Assert(len(out) == total, "every-record-exactly-once-count")
	}
	// every output record is one of the scripted ones, at most once, inputs' order kept
	next := make([]int, K)
	for _, rec := range out {
		in := int(rec.Name[1] - '0')
		idx := int(rec.Name[3] - '0')
		vrt.Assert(in >= 0 && in < K, "record-from-an-input")
		vrt.Assert(idx == next[in], "input-relative-order-kept")
		next[in]++
		sc := scripts[in]
		// re-linked to the merged header with the source's name
		if sc.placed[idx] {
			vrt.Assert(rec.Ref != nil, "ref-kept")
			id := rec.Ref.ID()
			vrt.Assert(id >= 0 && id < len(mh.Refs()) && mh.Refs()[id] == rec.Ref, "ref-belongs-to-merged-header")
			vrt.Assert(rec.Ref.Name() == sc.refNames[idx], "ref-name-kept")
		} else {
			vrt.Assert(rec.Ref == nil, "unplaced-stays-unplaced")
		}
		if sc.mated[idx] {
			vrt.Assert(rec.MateRef != nil, "materef-kept")
			id := rec.MateRef.ID()
			vrt.Assert(id >= 0 && id < len(mh.Refs()) && mh.Refs()[id] == rec.MateRef, "materef-belongs-to-merged-header")
			vrt.Assert(rec.MateRef.Name() == sc.mateNames[idx], "materef-name-kept")
		}
		vrt.Assert(rec.Pos == sc.poss[idx], "pos-kept")
	}
	// global order
	for i := 1; i < len(out); i++ {
		a, b := out[i-1], out[i]
		switch so {
		case sam.Coordinate, sam.QueryName:
			vrt.Assert(!verifLessInHeader(so, b, a), "output-sorted")
		case sam.Unsorted:
			vrt.Assert(a.Name[1] <= b.Name[1], "unsorted-is-concatenation")
		default:
			vrt.Assert(!custom(b, a), "output-sorted-by-custom-less")
		}
	}
	vrt.Reach("end")
}
