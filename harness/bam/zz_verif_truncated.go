package bam

import (
	"bytes"
	"io"

	"github.com/biogo/hts/bgzf"
	"github.com/biogo/hts/internal/vrt"
)

// verifBamMemberBases walks the member headers (RFC 1952 + BC subfield) to find the file
// offsets of the members and the offset after the last one.
func verifBamMemberBases(stream []byte) []int64 {
	var out []int64
	off := 0
	for off+18 <= len(stream) {
		b := stream[off:]
		xlen := int(b[10]) | int(b[11])<<8
		size := -1
		for x := b[12 : 12+xlen]; len(x) >= 4; {
			slen := int(x[2]) | int(x[3])<<8
			if x[0] == 'B' && x[1] == 'C' && slen == 2 {
				size = (int(x[4]) | int(x[5])<<8) + 1
			}
			x = x[4+slen:]
		}
		if size <= 0 {
			break
		}
		out = append(out, int64(off))
		off += size
	}
	return append(out, int64(off))
}

type verifMark struct {
	end  bgzf.Offset
	blen int
}

// C10-H-bam-trunc: every proper prefix of a closed BAM stream reads as a prefix of the
// records followed by an error, or by a clean end only where the cut is at a block
// boundary that is also a record boundary, and HasEOF is false there.
func VerifH_bam_truncated() {
	rd := vrt.Param("rd", 1)
	stream, recs := verifChunkFile()
	bases := verifBamMemberBases(stream)

	// reference pass over the intact stream: where the header and every record end
	full, err := NewReader(bytes.NewReader(stream), 1)
	vrt.Assert(err == nil, "NewReader-intact")
	marks := []verifMark{{full.r.LastChunk().End, full.r.BlockLen()}}
	for range recs {
		_, err := full.Read()
		vrt.Assert(err == nil, "intact-read")
		marks = append(marks, verifMark{full.r.LastChunk().End, full.r.BlockLen()})
	}
	full.Close()

	// the cut is chosen as (member, offset in member): member boundaries and header offsets
	// mean the same under the codec model and under the real encoder, whose member sizes differ
	mi := vrt.Choice("member", len(bases)-1)
	o := vrt.Choice("offset", 40)
	if vrt.Param("OFFS", 0) == 0 {
		// quick tier: representative offsets (boundary, inside the fixed header, inside the
		// extra field, first body bytes, trailer); every offset is explored at the BGZF level
		// by VerifH_bgzf_truncated and here in the thorough tier
		vrt.Assume(o == 0 || o == 1 || o == 12 || o == 18 || o == 20 || o == 27)
	}
	vrt.Assume(bases[mi]+int64(o) < bases[mi+1])
	t := int(bases[mi]) + o
	cut := stream[:t]
	r, err := NewReader(bytes.NewReader(cut), rd)
	if err != nil {
		// the header is incomplete: NewReader fails (with whatever error)
		vrt.Reach("open-error")
		return
	}
	n := 0
	var rerr error
	for n <= len(recs) {
		rec, err := r.Read()
		if err != nil {
			rerr = err
			break
		}
		vrt.Assert(n < len(recs) && verifSameChunkRecord(rec, recs[n]), "truncated-stream-yields-prefix-of-records")
		n++
	}
	vrt.Assert(rerr != nil, "reading-ends")
	if rerr == io.EOF {
		// n records (and the header) must end exactly at the end of a block, and the cut must
		// be at a member boundary after it
		m := marks[n]
		// the file offset of the block boundary at which the header and n records end, in
		// either spelling of that position; -1 if they end inside a block
		boundary := int64(-1)
		switch {
		case m.end.Block == 0:
			boundary = m.end.File
		case m.blen == 0: // BlockLen reports the bytes remaining in the current block
			for _, b := range bases {
				if b > m.end.File {
					boundary = b
					break
				}
			}
		}
		vrt.Assert(boundary >= 0, "clean-end-only-at-a-record-boundary-ending-a-block")
		atBoundary := false
		for _, b := range bases {
			if b == int64(t) && (b == boundary || (n == len(recs) && b > boundary)) {
				atBoundary = true
			}
		}
		vrt.Assert(atBoundary, "clean-end-only-at-a-block-boundary")
		has, herr := bgzf.HasEOF(bytes.NewReader(cut))
		vrt.Assert(herr != nil || !has, "HasEOF-false-for-truncated-stream")
	}
	r.Close()
	vrt.Reach("end")
}
