package bam

import (
	"bytes"
	"io"

	"github.com/biogo/hts/bgzf"
	"github.com/biogo/hts/internal/vrt"
	"github.com/biogo/hts/sam"
)

// verifChunkFile writes N records with explored name lengths (so that record ends fall
// on, before and after block ends of the scaled BGZF layer) and symbolic fixed fields.
func verifChunkFile() (stream []byte, recs []*sam.Record) {
	N := vrt.Param("N", 3)
	h, err := sam.NewHeader(nil, nil)
	vrt.Assert(err == nil, "NewHeader")
	var sink bytes.Buffer
	w, err := NewWriter(&sink, h, 1)
	vrt.Assert(err == nil, "NewWriter")
	for i := 0; i < N; i++ {
		nl := 1
		if i < vrt.Param("VARY", 2) {
			nl = 1 + vrt.Choice("namelen", bgzf.BlockSize)
		}
		name := make([]byte, nl)
		for k := range name {
			name[k] = byte('a' + i)
		}
		r := &sam.Record{Name: string(name), Pos: 7 + i, MatePos: -1, MapQ: vrt.Byte("mapq"), Flags: sam.Unmapped}
		if vrt.Param("SYM", 1) == 1 {
			r.Pos = int(vrt.Int32("pos"))
			r.Flags = sam.Flags(vrt.Uint16("flags"))
			vrt.Assume(r.Pos >= -1)
		}
		vrt.Assert(w.Write(r) == nil, "Write")
		recs = append(recs, r)
	}
	vrt.Assert(w.Close() == nil, "Close")
	return sink.Bytes(), recs
}

func verifSameChunkRecord(a, b *sam.Record) bool {
	return a.Name == b.Name && a.Pos == b.Pos && a.MapQ == b.MapQ && a.Flags == b.Flags
}

// C13-H-bam: chunks noted during a sequential read, replayed through SetChunk/Iterator,
// yield exactly the records they spanned.
func VerifH_bam_chunk_replay() {
	rd := vrt.Param("rd", 1)
	stream, recs := verifChunkFile()
	r, err := NewReader(bytes.NewReader(stream), rd)
	vrt.Assert(err == nil, "NewReader")
	var chunks []bgzf.Chunk
	for i := range recs {
		got, err := r.Read()
		vrt.Assert(err == nil, "sequential-read")
		vrt.Assert(verifSameChunkRecord(got, recs[i]), "sequential-record")
		chunks = append(chunks, r.LastChunk())
	}
	_, err = r.Read()
	vrt.Assert(err == io.EOF, "sequential-end")

	K := 1 + vrt.Choice("nchunks", vrt.Param("K", 2))
	var list []bgzf.Chunk
	var want []*sam.Record
	for k := 0; k < K; k++ {
		i := vrt.Choice("i", len(recs))
		j := i + vrt.Choice("j", len(recs)-i)
		list = append(list, bgzf.Chunk{Begin: chunks[i].Begin, End: chunks[j].End})
		want = append(want, recs[i:j+1]...)
	}
	if vrt.Param("fresh", 0) == 1 {
		r.Close()
		r, err = NewReader(bytes.NewReader(stream), rd)
		vrt.Assert(err == nil, "NewReader-2")
	}
	var got []*sam.Record
	if vrt.Param("iter", 1) == 1 {
		it, err := NewIterator(r, list)
		vrt.Assert(err == nil, "NewIterator")
		for n := 0; n <= len(want)+1 && it.Next(); n++ {
			got = append(got, it.Record())
		}
		vrt.Assert(it.Close() == nil, "iterator-error")
	} else {
		for k := range list {
			vrt.Assert(r.SetChunk(&list[k]) == nil, "SetChunk")
			for n := 0; n <= len(recs)+1; n++ {
				rec, err := r.Read()
				if err != nil {
					vrt.Assert(err == io.EOF, "chunk-read-error")
					break
				}
				got = append(got, rec)
			}
		}
	}
	vrt.Assert(len(got) == len(want), "chunk-replay-record-count")
	for n := range want {
		vrt.Assert(verifSameChunkRecord(got[n], want[n]), "chunk-replay-record")
	}
	r.Close()
	vrt.Reach("end")
}
