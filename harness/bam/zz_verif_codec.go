package bam

import (
	"bytes"
	"io"
	"math"

	"github.com/biogo/hts/bgzf"
	"github.com/biogo/hts/internal/vrt"
	"github.com/biogo/hts/sam"
)

// verifSrc serves bytes with arbitrary short reads (the io.Reader contract).
type verifSrc struct {
	data []byte
	pos  int
}

func (s *verifSrc) Read(p []byte) (int, error) {
	if s.pos >= len(s.data) {
		return 0, io.EOF
	}
	if len(p) == 0 {
		return 0, nil
	}
	n := len(s.data) - s.pos
	if n > len(p) {
		n = len(p)
	}
	if n > 1 && vrt.Param("shortreads", 0) == 1 && vrt.Choice("short", 2) == 1 {
		n = 1
	}
	copy(p, s.data[s.pos:s.pos+n])
	s.pos += n
	return n, nil
}

// verifFlatten returns the uncompressed byte stream: under the executor the
// BGZF layer is a pass-through stub, natively the real stream is decompressed.
func verifFlatten(b []byte) []byte {
	if vrt.Symbolic() {
		return b
	}
	r, err := bgzf.NewReader(bytes.NewReader(b), 1)
	if err != nil {
		panic(err)
	}
	out, err := io.ReadAll(r)
	if err != nil {
		panic(err)
	}
	return out
}

func verifCodecHeader() (*sam.Header, []*sam.Reference) {
	ra, _ := sam.NewReference("a", "", "", 1000, nil, nil)
	rb, _ := sam.NewReference("b", "", "", 2000, nil, nil)
	h, err := sam.NewHeader(nil, []*sam.Reference{ra, rb})
	vrt.Assert(err == nil, "NewHeader")
	return h, []*sam.Reference{ra, rb}
}

func verifPickRef(name string, refs []*sam.Reference) *sam.Reference {
	switch vrt.Choice(name, 3) {
	case 1:
		return refs[0]
	case 2:
		return refs[1]
	}
	return nil
}

// verifCodecRecord: every field the BAM format can represent, within the size bounds.
func verifCodecRecord(refs []*sam.Reference) *sam.Record {
	r := &sam.Record{}
	nl := 1 + vrt.Choice("namelen", vrt.Param("NAME", 2))
	name := vrt.Bytes("name", nl)
	for _, c := range name {
		vrt.Assume(c != 0)
	}
	r.Name = string(name)
	r.Ref = verifPickRef("ref", refs)
	r.MateRef = verifPickRef("materef", refs)
	r.Pos = int(vrt.Int32("pos"))
	r.MatePos = int(vrt.Int32("matepos"))
	r.TempLen = int(vrt.Int32("tlen"))
	r.MapQ = vrt.Byte("mapq")
	r.Flags = sam.Flags(vrt.Uint16("flags"))
	nc := vrt.Choice("ncigar", 1+vrt.Param("CIGAR", 2))
	for i := 0; i < nc; i++ {
		r.Cigar = append(r.Cigar, sam.CigarOp(vrt.Uint32("cigarop")))
	}
	L := vrt.Choice("seqlen", 1+vrt.Param("SEQ", 3))
	if L > 0 {
		d := vrt.Bytes("seq", (L+1)/2)
		if L&1 == 1 {
			// the unused low nybble of the last byte is zero in every encoder
			vrt.Assume(d[len(d)-1]&0xf == 0)
		}
		ds := make([]sam.Doublet, len(d))
		for i := range d {
			ds[i] = sam.Doublet(d[i])
		}
		r.Seq = sam.Seq{Length: L, Seq: ds}
		if vrt.Choice("qual", 2) == 1 {
			r.Qual = vrt.Bytes("qual", L)
		}
	}
	na := vrt.Choice("naux", 1+vrt.Param("AUX", 1))
	for i := 0; i < na; i++ {
		tag := sam.NewTag("X" + string(rune('A'+i)))
		var a sam.Aux
		var err error
		switch vrt.Choice("auxtype", 11) {
		case 0:
			a, err = sam.NewAux(tag, sam.ASCII(vrt.Byte("aA")))
		case 1:
			a, err = sam.NewAux(tag, vrt.Int8("ac"))
		case 2:
			a, err = sam.NewAux(tag, vrt.Uint8("aC"))
		case 3:
			a, err = sam.NewAux(tag, vrt.Int16("as"))
		case 4:
			a, err = sam.NewAux(tag, vrt.Uint16("aS"))
		case 5:
			a, err = sam.NewAux(tag, vrt.Int32("ai"))
		case 6:
			a, err = sam.NewAux(tag, vrt.Uint32("aI"))
		case 7:
			a, err = sam.NewAux(tag, math.Float32frombits(vrt.Uint32("af")))
		case 8:
			z := vrt.Bytes("aZ", vrt.Choice("zlen", 3))
			for _, c := range z {
				vrt.Assume(c != 0)
			}
			a, err = sam.NewAux(tag, sam.Text(z))
		case 9:
			hx := vrt.Bytes("aH", vrt.Choice("hlen", 3))
			for _, c := range hx {
				vrt.Assume(c != 0)
			}
			a, err = sam.NewAux(tag, sam.Hex(hx))
		case 10:
			n := vrt.Choice("blen", 3)
			switch vrt.Choice("bsub", 3) {
			case 0:
				a, err = sam.NewAux(tag, vrt.Bytes("aBC", n))
			case 1:
				v := make([]int16, n)
				for k := range v {
					v[k] = vrt.Int16("aBs")
				}
				a, err = sam.NewAux(tag, v)
			case 2:
				v := make([]uint32, n)
				for k := range v {
					v[k] = vrt.Uint32("aBI")
				}
				a, err = sam.NewAux(tag, v)
			}
		}
		vrt.Assert(err == nil, "NewAux")
		r.AuxFields = append(r.AuxFields, a)
	}
	return r
}

func verifLE32(b []byte, v uint32) []byte { return append(b, byte(v), byte(v>>8), byte(v>>16), byte(v>>24)) }
func verifLE16(b []byte, v uint16) []byte { return append(b, byte(v), byte(v>>8)) }

func verifRefID(r *sam.Reference) uint32 {
	if r == nil {
		return 0xffffffff
	}
	return uint32(r.ID())
}

// verifSpecRecord encodes a record as SAM specification section 4.2 lays it out.
// The second result is the offset of the bin field, which is not compared.
func verifSpecRecord(r *sam.Record) ([]byte, int) {
	var body []byte
	body = verifLE32(body, verifRefID(r.Ref))
	body = verifLE32(body, uint32(int32(r.Pos)))
	body = append(body, byte(len(r.Name)+1), r.MapQ)
	binOff := 4 + len(body)
	body = verifLE16(body, 0) // bin: ignored
	body = verifLE16(body, uint16(len(r.Cigar)))
	body = verifLE16(body, uint16(r.Flags))
	body = verifLE32(body, uint32(r.Seq.Length))
	body = verifLE32(body, verifRefID(r.MateRef))
	body = verifLE32(body, uint32(int32(r.MatePos)))
	body = verifLE32(body, uint32(int32(r.TempLen)))
	body = append(body, r.Name...)
	body = append(body, 0)
	for _, op := range r.Cigar {
		body = verifLE32(body, uint32(op))
	}
	for _, d := range r.Seq.Seq {
		body = append(body, byte(d))
	}
	for i := 0; i < r.Seq.Length; i++ {
		if r.Qual != nil {
			body = append(body, r.Qual[i])
		} else {
			body = append(body, 0xff)
		}
	}
	for _, a := range r.AuxFields {
		body = append(body, a...)
		if t := a.Type(); t == 'Z' || t == 'H' {
			body = append(body, 0)
		}
	}
	out := verifLE32(nil, uint32(len(body)))
	return append(out, body...), binOff
}

func verifSameRecord(got, want *sam.Record, omit int, label string) {
	vrt.Assert(got.Name == want.Name, label+"-name")
	vrt.Assert(got.Ref == want.Ref, label+"-ref-identity")
	vrt.Assert(got.MateRef == want.MateRef, label+"-materef-identity")
	vrt.Assert(got.Pos == want.Pos, label+"-pos")
	vrt.Assert(got.MatePos == want.MatePos, label+"-matepos")
	vrt.Assert(got.TempLen == want.TempLen, label+"-tlen")
	vrt.Assert(got.MapQ == want.MapQ, label+"-mapq")
	vrt.Assert(got.Flags == want.Flags, label+"-flags")
	vrt.Assert(len(got.Cigar) == len(want.Cigar), label+"-ncigar")
	for i := range want.Cigar {
		vrt.Assert(got.Cigar[i] == want.Cigar[i], label+"-cigarop")
	}
	if omit >= AllVariableLengthData {
		vrt.Assert(got.Seq.Length == 0 && len(got.Qual) == 0 && len(got.AuxFields) == 0, label+"-omitted-all-variable-data")
		return
	}
	vrt.Assert(got.Seq.Length == want.Seq.Length, label+"-seqlen")
	vrt.Assert(len(got.Seq.Seq) == len(want.Seq.Seq), label+"-seq-bytes")
	for i := range want.Seq.Seq {
		vrt.Assert(got.Seq.Seq[i] == want.Seq.Seq[i], label+"-seq")
	}
	vrt.Assert(len(got.Qual) == want.Seq.Length, label+"-qual-len")
	for i := 0; i < want.Seq.Length; i++ {
		if want.Qual != nil {
			vrt.Assert(got.Qual[i] == want.Qual[i], label+"-qual")
		} else {
			vrt.Assert(got.Qual[i] == 0xff, label+"-qual-absent-is-0xff")
		}
	}
	if omit >= AuxTags {
		vrt.Assert(len(got.AuxFields) == 0, label+"-omitted-aux")
		return
	}
	vrt.Assert(len(got.AuxFields) == len(want.AuxFields), label+"-naux")
	for i := range want.AuxFields {
		vrt.Assert(bytes.Equal(got.AuxFields[i], want.AuxFields[i]), label+"-aux-bytes")
	}
}

// C05-H-rec: write one or two records, compare the bytes with the independent
// encoder, read them back (with every Omit mode) and compare every field.
func VerifH_bam_codec_roundtrip() {
	h, refs := verifCodecHeader()
	nrec := 1 + vrt.Choice("nrec", vrt.Param("NREC", 1))
	recs := make([]*sam.Record, nrec)
	for i := range recs {
		recs[i] = verifCodecRecord(refs)
	}
	var buf bytes.Buffer
	w, err := NewWriter(&buf, h, 1)
	vrt.Assert(err == nil, "NewWriter")
	hdrLen := len(verifFlatten(append([]byte(nil), buf.Bytes()...)))
	_ = hdrLen
	for _, r := range recs {
		vrt.Assert(w.Write(r) == nil, "Write")
	}
	vrt.Assert(w.Close() == nil, "Close")
	flat := verifFlatten(buf.Bytes())
	// header first: decode it with the library and compare names and lengths
	var hb bytes.Buffer
	vrt.Assert(h.EncodeBinary(&hb) == nil, "EncodeBinary")
	vrt.Assert(len(flat) >= hb.Len(), "stream-starts-with-header")
	vrt.Assert(bytes.Equal(flat[:hb.Len()], hb.Bytes()), "header-bytes")
	off := hb.Len()
	for _, r := range recs {
		want, binOff := verifSpecRecord(r)
		vrt.Assert(len(flat) >= off+len(want), "record-bytes-present")
		same := true
		for i := range want {
			if i == binOff || i == binOff+1 {
				continue
			}
			same = vrt.And(same, flat[off+i] == want[i])
		}
		vrt.Assert(same, "record-bytes-match-spec-encoder")
		off += len(want)
	}
	vrt.Assert(off == len(flat), "nothing-after-last-record")
	// read back
	omit := vrt.Choice("omit", 3)
	var rd *Reader
	if vrt.Symbolic() {
		rd, err = NewReader(&verifSrc{data: flat}, 1)
	} else {
		rd, err = NewReader(bytes.NewReader(buf.Bytes()), 1)
	}
	vrt.Assert(err == nil, "NewReader")
	rd.Omit(omit)
	hr := rd.Header()
	vrt.Assert(len(hr.Refs()) == len(refs), "header-refs")
	for i, r := range hr.Refs() {
		vrt.Assert(r.Name() == refs[i].Name() && r.Len() == refs[i].Len(), "header-ref-equal")
	}
	got := make([]*sam.Record, 0, nrec)
	for i := 0; i < nrec; i++ {
		rec, err := rd.Read()
		vrt.Assert(err == nil, "Read")
		got = append(got, rec)
	}
	_, err = rd.Read()
	vrt.Assert(err == io.EOF, "EOF-after-last-record")
	// compare after all reads (the reader reuses its buffer between records)
	for i, rec := range got {
		want := *recs[i]
		// references are compared by identity within the reader's own header
		if want.Ref != nil {
			want.Ref = hr.Refs()[want.Ref.ID()]
		}
		if want.MateRef != nil {
			want.MateRef = hr.Refs()[want.MateRef.ID()]
		}
		verifSameRecord(rec, &want, omit, "roundtrip")
	}
	vrt.Reach("end")
}

// C06 (SAM/BAM agreement): a record read back from BAM formats to the same SAM
// line as the record that was written.
func VerifH_bam_sam_agree() {
	h, refs := verifCodecHeader()
	r := &sam.Record{Name: "q" + string(rune('0'+vrt.Choice("namedigit", 3)))}
	r.Ref = verifPickRef("ref", refs)
	r.MateRef = verifPickRef("materef", refs)
	r.Pos = int(vrt.Uint8("pos"))
	r.MatePos = 1<<29 - 2
	r.TempLen = int(vrt.Int8("tlen"))
	r.MapQ = 255
	r.Flags = 0xffff
	if r.Ref == nil {
		r.Pos = -1
	}
	L := vrt.Choice("seqlen", 3)
	if L > 0 {
		seq := make([]byte, L)
		for i := range seq {
			seq[i] = "=ACMGRSVTWYHKDBN"[vrt.Byte("base")&15]
		}
		r.Seq = sam.NewSeq(seq)
		r.Cigar = sam.Cigar{sam.NewCigarOp(sam.CigarMatch, L)}
		if vrt.Choice("qual", 2) == 1 {
			r.Qual = make([]byte, L)
			for i := range r.Qual {
				r.Qual[i] = []byte{0, 1, 41, 93}[vrt.Byte("q")&3]
			}
		}
	}
	switch vrt.Choice("aux", 4) {
	case 1:
		a, _ := sam.NewAux(sam.NewTag("XA"), int(vrt.Int8("auxi")))
		r.AuxFields = sam.AuxFields{a}
	case 2:
		a, _ := sam.NewAux(sam.NewTag("XZ"), sam.Text("t"+string("ab~:"[vrt.Byte("auxz")&3])))
		r.AuxFields = sam.AuxFields{a}
	case 3:
		a, _ := sam.NewAux(sam.NewTag("XB"), []uint8{vrt.Uint8("auxb"), 7})
		r.AuxFields = sam.AuxFields{a}
	}
	var buf bytes.Buffer
	w, err := NewWriter(&buf, h, 1)
	vrt.Assert(err == nil, "NewWriter")
	vrt.Assert(w.Write(r) == nil, "Write")
	vrt.Assert(w.Close() == nil, "Close")
	var rd *Reader
	if vrt.Symbolic() {
		rd, err = NewReader(&verifSrc{data: buf.Bytes()}, 1)
	} else {
		rd, err = NewReader(bytes.NewReader(buf.Bytes()), 1)
	}
	vrt.Assert(err == nil, "NewReader")
	got, err := rd.Read()
	vrt.Assert(err == nil, "Read")
	format := vrt.Choice("format", 2)
	t1, err := r.MarshalSAM(format)
	vrt.Assert(err == nil, "MarshalSAM-written")
	t2, err := got.MarshalSAM(format)
	vrt.Assert(err == nil, "MarshalSAM-read-back")
	vrt.Assert(bytes.Equal(t1, t2), "sam-lines-agree")
	vrt.Reach("end")
}
