package bam

import (
	"bytes"

	"github.com/biogo/hts/bgzf"
	"github.com/biogo/hts/internal/vrt"
	"github.com/biogo/hts/sam"
)

// C11: bam.Reader.Read over an arbitrary record: a valid header followed by a block size
// and record bytes that are entirely symbolic. The call returns a record or an error
// without panicking, and a record returned without error can be handed to the library's
// accessors, its SAM formatter and its BAM writer without a panic.
func VerifH_total_bam_read() {
	vrt.LenientFmt(true)
	N := vrt.Param("RECLEN", 40)
	ra, _ := sam.NewReference("a", "", "", 1000, nil, nil)
	h, err := sam.NewHeader(nil, []*sam.Reference{ra})
	vrt.Assert(err == nil, "NewHeader")
	var hb bytes.Buffer
	w, err := NewWriter(&hb, h, 1)
	vrt.Assert(err == nil, "NewWriter")
	vrt.Assert(w.Close() == nil, "Close")
	flat := append([]byte(nil), verifFlatten(hb.Bytes())...)

	// record lengths: inside the fixed fields, exactly the fixed fields (32), and 1..N-32
	// bytes of variable data
	lens := []int{0, 3, 4, 20, 31, 32, 33, 34, 35, 36, 38, N}
	n := lens[vrt.Choice("reclen", len(lens))]
	vrt.Assume(n <= N)
	size := vrt.Uint32("blocksize")
	if vrt.Param("HONEST", 1) == 1 {
		// the announced size is the number of bytes that follow (other sizes end in
		// io.ErrUnexpectedEOF or continue into the next record, nothing new)
		vrt.Assume(int(size) == n)
	}
	flat = append(flat, byte(size), byte(size>>8), byte(size>>16), byte(size>>24))
	body := vrt.Bytes("record", N)
	// the flag word is one of a few constants: Flags.String forks once per bit (4096 paths
	// per record shape) and is covered with fully symbolic flags by the C06 harnesses
	fl := []uint16{0, 0xffff, 0x0001, 0x0914}[vrt.Choice("flags", 4)]
	vrt.Assume(body[14] == byte(fl))
	vrt.Assume(body[15] == byte(fl>>8))
	flat = append(flat, body[:n]...)

	var packed bytes.Buffer
	bw := bgzf.NewWriter(&packed, 1)
	bw.Write(flat)
	vrt.Assert(bw.Close() == nil, "pack")

	r, err := NewReader(bytes.NewReader(packed.Bytes()), 1)
	vrt.Assert(err == nil, "NewReader")
	r.Omit(vrt.Choice("omit", 3))
	rec, err := r.Read()
	if err != nil {
		vrt.Reach("error")
		vrt.Reach("ok")
		return
	}
	// accessors, formatter, writer
	_ = rec.Start()
	_ = rec.End()
	_ = rec.Len()
	_ = rec.Bin()
	_ = rec.Strand()
	_ = rec.RefID()
	_ = rec.String()
	_, _ = rec.MarshalSAM(0)
	_ = rec.Seq.Expand()
	var out bytes.Buffer
	ow, err := NewWriter(&out, h, 1)
	vrt.Assert(err == nil, "NewWriter-2")
	_ = ow.Write(rec)
	_ = ow.Close()
	vrt.Reach("ok")
}
