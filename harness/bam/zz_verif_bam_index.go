package bam

import (
	"bytes"

	"github.com/biogo/hts/bgzf"
	"github.com/biogo/hts/internal"
	"github.com/biogo/hts/internal/vrt"
	"github.com/biogo/hts/sam"
)

type verifIdxRec struct {
	rec    *sam.Record
	rid    int
	start  int
	end    int
	placed bool
	mapped bool
	chunk  bgzf.Chunk
}

func verifVO(o bgzf.Offset) int64 { return o.File<<16 | int64(o.Block) }

func verifMkOffset(v int64) bgzf.Offset { return bgzf.Offset{File: v >> 16, Block: uint16(v)} }

// verifBuildIndex adds k<=K real sam.Records (one M op gives the length) in
// coordinate order, followed optionally by unplaced records, and keeps ghost
// statistics of what was added.
func verifBuildIndex() (*Index, []*verifIdxRec, []*sam.Reference) {
	K := vrt.Param("K", 2)
	T := vrt.Param("T", 2)
	R := vrt.Param("R", 2)
	names := []string{"a", "b"}
	refs := make([]*sam.Reference, R)
	for i := range refs {
		r, err := sam.NewReference(names[i], "", "", 1<<29, nil, nil)
		vrt.Assert(err == nil, "NewReference")
		refs[i] = r
	}
	_, err := sam.NewHeader(nil, refs)
	vrt.Assert(err == nil, "NewHeader")
	k := 1 + vrt.Choice("nrec", K)
	idx := &Index{}
	recs := make([]*verifIdxRec, k)
	var prevEnd int64
	unplacedPhase := false
	for i := range recs {
		v := &verifIdxRec{}
		if !unplacedPhase && i > 0 && vrt.Choice("unplaced_from_here", 2) == 1 {
			unplacedPhase = true
		}
		b := vrt.Int64("cbeg")
		e := vrt.Int64("cend")
		vrt.Assume(b >= prevEnd)
		vrt.Assume(b < e)
		vrt.Assume(e < 1<<40)
		prevEnd = e
		v.chunk = bgzf.Chunk{Begin: verifMkOffset(b), End: verifMkOffset(e)}
		if unplacedPhase {
			v.rec = &sam.Record{Name: "u", Pos: -1, MatePos: -1, Flags: sam.Unmapped}
			v.rid, v.start, v.end = -1, -1, 0
		} else {
			v.rid = vrt.Choice("rid", R)
			v.start = vrt.Int("start")
			length := vrt.Int("len")
			v.mapped = vrt.Bool("mapped")
			vrt.Assume(v.start >= 0)
			vrt.Assume(v.start < T*internal.TileWidth)
			vrt.Assume(length >= 1)
			vrt.Assume(length <= T*internal.TileWidth)
			vrt.Assume(v.start+length <= T*internal.TileWidth)
			if i > 0 {
				p := recs[i-1]
				vrt.Assume(p.rid <= v.rid)
				if p.rid == v.rid {
					vrt.Assume(p.start <= v.start)
				}
			}
			fl := sam.Flags(0)
			v.end = v.start + length
			if !v.mapped {
				fl = sam.Unmapped
				v.end = v.start + 1
			}
			v.placed = true
			v.rec = &sam.Record{Name: "r", Ref: refs[v.rid], Pos: v.start, MatePos: -1, Flags: fl,
				Cigar: sam.Cigar{sam.NewCigarOp(sam.CigarMatch, length)}}
		}
		recs[i] = v
		err := idx.Add(v.rec, v.chunk)
		vrt.Assert(err == nil, "Add-sorted-never-fails")
	}
	return idx, recs, refs
}

func verifQuery() (int, int, int) {
	T := vrt.Param("T", 2)
	R := vrt.Param("R", 2)
	ref := vrt.Choice("qref", R)
	beg := vrt.Int("qbeg")
	end := vrt.Int("qend")
	vrt.Assume(beg >= 0)
	vrt.Assume(beg < end)
	vrt.Assume(end <= T*internal.TileWidth)
	return ref, beg, end
}

func verifCheckComplete(idx *Index, recs []*verifIdxRec, refs []*sam.Reference, ref, beg, end int, label string) []bgzf.Chunk {
	chunks, err := idx.Chunks(refs[ref], beg, end)
	for _, r := range recs {
		hit := vrt.And(vrt.And(r.placed, r.rid == ref), vrt.And(r.start < end, beg < r.end))
		covered := false
		if err == nil {
			for _, c := range chunks {
				covered = vrt.Or(covered, vrt.And(verifVO(c.Begin) <= verifVO(r.chunk.Begin), verifVO(r.chunk.End) <= verifVO(c.End)))
			}
		}
		vrt.Assert(vrt.Implies(hit, covered), label)
	}
	if err != nil {
		return nil
	}
	return chunks
}

// C04 (BAM): real sam.Records through bam.Index.Add; Chunks is complete.
func VerifH_bam_index_complete() {
	idx, recs, refs := verifBuildIndex()
	ref, beg, end := verifQuery()
	verifCheckComplete(idx, recs, refs, ref, beg, end, "overlapping-record-covered")
	vrt.Reach("end")
}

func verifSameChunks(a, b []bgzf.Chunk) bool {
	if len(a) != len(b) {
		return false
	}
	ok := true
	for i := range a {
		ok = vrt.And(ok, vrt.And(verifVO(a[i].Begin) == verifVO(b[i].Begin), verifVO(a[i].End) == verifVO(b[i].End)))
	}
	return ok
}

// C15/C04 (BAI): write -> read -> write gives identical bytes, identical query
// answers and statistics; statistics equal the true counts of what was added.
func VerifH_bam_index_roundtrip() {
	idx, recs, refs := verifBuildIndex()
	var b1 bytes.Buffer
	err := WriteIndex(&b1, idx)
	vrt.Assert(err == nil, "WriteIndex")
	first := append([]byte(nil), b1.Bytes()...)
	idx2, err := ReadIndex(&b1)
	vrt.Assert(err == nil, "ReadIndex")
	nplaced := 0
	for _, r := range recs {
		if r.placed {
			nplaced++
		}
	}
	if nplaced == 0 {
		// an index without references reads back as nil by design
		vrt.Assert(idx2 == nil, "empty-index-reads-nil")
		vrt.Reach("empty")
		return
	}
	vrt.Assert(idx2 != nil, "index-read")
	var b2 bytes.Buffer
	err = WriteIndex(&b2, idx2)
	vrt.Assert(err == nil, "WriteIndex-2")
	second := b2.Bytes()
	vrt.Assert(len(first) == len(second), "same-length-bytes")
	same := true
	for i := range first {
		same = vrt.And(same, first[i] == second[i])
	}
	vrt.Assert(same, "identical-bytes")
	// statistics
	vrt.Assert(idx2.NumRefs() == idx.NumRefs(), "NumRefs")
	var unplaced uint64
	for _, r := range recs {
		if !r.placed {
			unplaced++
		}
	}
	n, ok := idx2.Unmapped()
	vrt.Assert(ok, "unmapped-count-present")
	vrt.Assert(n == unplaced, "unplaced-count")
	for id := 0; id < idx2.NumRefs(); id++ {
		var mapped, unmapped uint64
		var first, last *verifIdxRec
		for _, r := range recs {
			if r.placed && r.rid == id {
				if first == nil {
					first = r
				}
				last = r
				if r.mapped {
					mapped++
				} else {
					unmapped++
				}
			}
		}
		st, ok := idx2.ReferenceStats(id)
		st1, ok1 := idx.ReferenceStats(id)
		vrt.Assert(ok == ok1, "stats-presence-kept")
		vrt.Assert(ok == (first != nil), "stats-present-iff-records")
		if ok {
			vrt.Assert(st.Mapped == mapped, "mapped-count")
			vrt.Assert(st.Unmapped == unmapped, "unmapped-count")
			vrt.Assert(st.Mapped == st1.Mapped, "mapped-kept")
			vrt.Assert(verifVO(st.Chunk.Begin) == verifVO(first.chunk.Begin), "span-begin")
			vrt.Assert(verifVO(st.Chunk.End) == verifVO(last.chunk.End), "span-end")
		}
	}
	// query answers identical, and still complete after the round trip
	ref, beg, end := verifQuery()
	c1, e1 := idx.Chunks(refs[ref], beg, end)
	c2 := verifCheckComplete(idx2, recs, refs, ref, beg, end, "overlapping-record-covered-after-reread")
	if e1 == nil {
		vrt.Assert(verifSameChunks(c1, c2), "same-chunks-after-reread")
	} else {
		vrt.Assert(c2 == nil, "same-error-after-reread")
	}
	vrt.Reach("end")
}
