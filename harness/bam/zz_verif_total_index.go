package bam

import (
	"bytes"

	"github.com/biogo/hts/internal/vrt"
	"github.com/biogo/hts/sam"
)

// C11: bam.ReadIndex over arbitrary bytes after the magic: every count field
// is an arbitrary int32 (negative included); allocations above the harness
// limit are counted, not judged. A decoded index must be usable.
func VerifH_total_readindex() {
	vrt.LenientFmt(true)
	// a query inside the indexable range, a few tiles wide
	beg := vrt.Int("beg")
	end := vrt.Int("end")
	vrt.Assume(beg >= 0)
	vrt.Assume(beg < end)
	vrt.Assume(end <= 1<<29)
	vrt.Assume(end-beg <= 1<<15)
	N := vrt.Param("IDXLEN", 24)
	data := append([]byte{'B', 'A', 'I', 1}, vrt.Bytes("data", N)...)
	n := vrt.Int("len")
	vrt.Assume(n >= 0)
	vrt.Assume(n <= len(data))
	idx, err := ReadIndex(bytes.NewReader(data[:n]))
	if err != nil || idx == nil {
		vrt.Reach("error")
		return
	}
	ref, _ := sam.NewReference("a", "", "", 1<<29, nil, nil)
	_, _ = sam.NewHeader(nil, []*sam.Reference{ref})
	if idx.NumRefs() > 0 {
		_, _ = idx.Chunks(ref, beg, end)
		_, _ = idx.ReferenceStats(0)
	}
	_, _ = idx.Unmapped()
	var out bytes.Buffer
	_ = WriteIndex(&out, idx)
	vrt.Reach("ok")
}
