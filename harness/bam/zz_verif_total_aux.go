package bam

import "github.com/biogo/hts/internal/vrt"

// C11: bam.parseAux over arbitrary bytes; every decoded field must be usable.
func VerifH_total_bam_parseaux() {
	vrt.LenientFmt(true)
	N := vrt.Param("BAMAUX", 10)
	b := vrt.Bytes("aux", N)
	n := vrt.Int("len")
	vrt.Assume(n >= 0)
	vrt.Assume(n <= N)
	aa, err := parseAux(b[:n:n])
	if err != nil {
		vrt.Reach("error")
		return
	}
	for _, a := range aa {
		_ = a.Tag()
		_ = a.Type()
		_ = a.Kind()
		_ = a.Value()
		_ = a.String()
	}
	vrt.Reach("ok")
}
